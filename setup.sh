#!/bin/sh
# Builds the verifier from files on disk only (vendored x/tools v0.29.0).
set -e
cd /verif/govc
mkdir -p /verif/bin
GOFLAGS=-mod=vendor GOPROXY=off GOSUMDB=off GOTOOLCHAIN=local CGO_ENABLED=0 go build -o /verif/bin/govc .
