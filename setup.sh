#!/bin/sh
# Builds the verifier from files on disk only (vendored x/tools v0.29.0).
set -e
cd /verif/govc
mkdir -p /verif/bin
GOFLAGS=-mod=vendor GOPROXY=off GOSUMDB=off GOTOOLCHAIN=local CGO_ENABLED=0 go build -o /verif/bin/govc .
# goyacc (x/tools v0.29.0 cmd/goyacc, standard library only; source kept under /verif/tools/goyacc) for the
# grammar obligation "parser.go is what goyacc generates from parser.go.y"
cd /verif/tools/goyacc
GOFLAGS=-mod=mod GOPROXY=off GOSUMDB=off GOTOOLCHAIN=local CGO_ENABLED=0 go build -o /verif/bin/goyacc .
