package sql

import "testing"

// F12: the semantic value of an empty grammar rule is whatever the parser stack slot held before.
func TestF12EpsilonRulesLeak(t *testing.T) {
	s, err := Parse("CREATE INDEX i ON t (a, b COLLATE nocase, c, d)")
	if err != nil {
		t.Fatal(err)
	}
	for _, c := range s.(CreateIndexStmt).IndexedColumns {
		if (c.Column == "c" || c.Column == "d") && c.Collate != "" {
			t.Errorf("column %s reports collation %q", c.Column, c.Collate)
		}
	}
	s, err = Parse("CREATE TABLE t (x, a integer PRIMARY KEY AUTOINCREMENT, c integer PRIMARY KEY)")
	if err != nil {
		t.Fatal(err)
	}
	for _, c := range s.(CreateTableStmt).Columns {
		if c.Name == "c" && c.AutoIncrement {
			t.Errorf("column c reports AUTOINCREMENT")
		}
	}
	s, err = Parse("CREATE TABLE t (x, a integer REFERENCES p(id) ON DELETE CASCADE, c integer REFERENCES q(id))")
	if err != nil {
		t.Fatal(err)
	}
	for _, c := range s.(CreateTableStmt).Columns {
		if c.Name == "c" && c.References != nil && len(c.References.Triggers) != 0 {
			t.Errorf("column c reports triggers %v", c.References.Triggers)
		}
	}
}
