package sqlittle

import (
	"testing"

	sdb "github.com/alicebob/sqlittle/db"
)

// F5: a WITHOUT ROWID table definition with a duplicated column name (only a damaged or crafted
// file can hold it) makes columnStoreOrder index past the end of its result.
func TestF5DuplicateColumnStoreOrder(t *testing.T) {
	defer func() {
		if r := recover(); r != nil {
			t.Errorf("panic: %v", r)
		}
	}()
	s := &sdb.Schema{
		Table:        "t",
		WithoutRowid: true,
		Columns:      []sdb.TableColumn{{Column: "a"}, {Column: "b"}, {Column: "A"}},
		PK:           []sdb.IndexColumn{{Column: "a"}},
	}
	columnStoreOrder(s)
}
