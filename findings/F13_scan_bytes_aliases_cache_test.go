package sqlittle

import (
	"os"
	"os/exec"
	"testing"
)

// F13: a []byte obtained from Row.Scan aliased the page cache: modifying it changed what later
// reads on the same handle return.
func TestF13ScanBytesAliasesPageCache(t *testing.T) {
	dir := t.TempDir()
	file := dir + "/blob.sqlite"
	out, err := exec.Command("python3", "-c", `
import sqlite3,sys
c=sqlite3.connect(sys.argv[1])
c.execute("create table t (b blob)")
c.execute("insert into t values (x'0102030405060708')")
c.commit()
`, file).CombinedOutput()
	if err != nil {
		t.Fatal(err, string(out))
	}
	defer os.Remove(file)
	db, err := Open(file)
	if err != nil {
		t.Fatal(err)
	}
	defer db.Close()
	read := func() []byte {
		var got []byte
		if err := db.Select("t", func(r Row) {
			if err := r.Scan(&got); err != nil {
				t.Fatal(err)
			}
		}, "b"); err != nil {
			t.Fatal(err)
		}
		return got
	}
	first := read()
	first[0] = 0xff // the caller modifies its own copy
	second := read()
	if second[0] != 0x01 {
		t.Errorf("second read returned % x: the scanned slice aliases the page cache", second)
	}
}
