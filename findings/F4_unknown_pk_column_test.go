package db

import "testing"

// F4: a sqlite_master entry whose PRIMARY KEY table constraint names a column the table does not
// have (SQLite never writes such text; a damaged or crafted file can hold it) makes newSchema panic
// with a nil dereference instead of returning an error.
func TestF4UnknownPKColumn(t *testing.T) {
	for _, sqlText := range []string{
		"CREATE TABLE t (a, PRIMARY KEY (b))",
		"CREATE TABLE t (a, PRIMARY KEY (a+1))",
		"CREATE TABLE t (a, PRIMARY KEY (b)) WITHOUT ROWID",
	} {
		func() {
			defer func() {
				if r := recover(); r != nil {
					t.Errorf("%s: panic: %v", sqlText, r)
				}
			}()
			master := []sqliteMaster{{typ: "table", name: "t", tblName: "t", sql: sqlText}}
			s, err := newSchema("t", master)
			if err == nil {
				t.Errorf("%s: no error, schema %+v", sqlText, s)
			}
		}()
	}
}
