package sqlittle

import (
	"io/ioutil"
	"os"
	"path/filepath"
	"testing"
)

// F8: the file is mapped once, at Open, with the length it had then. When another connection commits a
// transaction that makes the file longer, every page beyond the old length is unreadable through this
// handle: the read transaction that follows does not reflect the committed state, it fails with EOF.
// (A file that became shorter is worse: touching the mapping beyond the new end raises SIGBUS.)
func TestF8FileGrownAfterOpen(t *testing.T) {
	dir, err := ioutil.TempDir("", "f8")
	if err != nil {
		t.Fatal(err)
	}
	defer os.RemoveAll(dir)
	path := filepath.Join(dir, "db.sqlite")
	small, _ := ioutil.ReadFile("testdata/empty.sqlite") // 2 pages
	big, _ := ioutil.ReadFile("testdata/music.sqlite")   // 7 pages, different change counter
	if err := ioutil.WriteFile(path, small, 0644); err != nil {
		t.Fatal(err)
	}
	db, err := Open(path)
	if err != nil {
		t.Fatal(err)
	}
	defer db.Close()
	// "another connection commits": the same file, in place, now holds the bigger database
	f, err := os.OpenFile(path, os.O_WRONLY, 0)
	if err != nil {
		t.Fatal(err)
	}
	if _, err := f.WriteAt(big, 0); err != nil {
		t.Fatal(err)
	}
	f.Close()

	n := 0
	err = db.Select("tracks", func(Row) { n++ }, "name")
	if err != nil {
		t.Fatalf("select after the file grew: %v (rows seen: %d)", err, n)
	}
	if n == 0 {
		t.Fatalf("no rows")
	}
}
