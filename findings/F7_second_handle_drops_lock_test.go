package sqlittle

import (
	"os/exec"
	"testing"
)

// probe from another process: can a writer take an exclusive lock on the shared range?
func probeShared(t *testing.T, file string) string {
	out, err := exec.Command("python3", "-c", `
import fcntl,sys,os
fd=os.open(sys.argv[1],os.O_RDWR)
try:
    fcntl.lockf(fd, fcntl.LOCK_EX|fcntl.LOCK_NB, 510, 0x40000002, 0)
    print("unlocked")
except OSError:
    print("locked")
`, file).CombinedOutput()
	if err != nil {
		t.Fatal(err, string(out))
	}
	return string(out[:len(out)-1])
}

// F7: opening a second handle on the same file (the database/sql driver does so per statement)
// drops the SHARED lock a first handle holds in the middle of a read, because mmap.Open opens and
// closes its own descriptor and POSIX drops all of the process's locks on close.
func TestF7SecondHandleDropsLock(t *testing.T) {
	file := "testdata/words.sqlite"
	a, err := Open(file)
	if err != nil {
		t.Fatal(err)
	}
	defer a.Close()
	n := 0
	err = a.Select("words", func(r Row) {
		n++
		if n > 1 {
			return
		}
		before := probeShared(t, file)
		b, err := Open(file) // another handle in the same process
		if err != nil {
			t.Fatal(err)
		}
		after := probeShared(t, file)
		b.Close()
		t.Logf("inside the row callback of handle A: shared range %s before opening handle B, %s after", before, after)
		if after != "locked" {
			t.Errorf("SHARED lock of handle A was dropped by opening handle B")
		}
	}, "word")
	if err != nil {
		t.Fatal(err)
	}
}
