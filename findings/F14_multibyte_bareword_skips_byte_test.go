package sql

import "testing"

// F14: after a bare word that starts with a multi-byte letter the tokenizer skips as many extra
// bytes as that letter is long minus one, so the comma (or parenthesis) after it is lost.
func TestF14MultibyteBarewordSkipsNextByte(t *testing.T) {
	s, err := Parse("CREATE TABLE t (ü, b)")
	if err != nil {
		t.Fatal(err)
	}
	cols := s.(CreateTableStmt).Columns
	if len(cols) != 2 {
		t.Errorf("CREATE TABLE t (ü, b): %d column(s) reported: %+v", len(cols), cols)
	}
	s, err = Parse("CREATE TABLE t (a, ü, b)")
	if err != nil {
		t.Fatal(err)
	}
	cols = s.(CreateTableStmt).Columns
	if len(cols) != 3 {
		t.Errorf("CREATE TABLE t (a, ü, b): %d column(s) reported: %+v", len(cols), cols)
	}
	toks, err := tokenize("ü,b")
	if err != nil || len(toks) != 3 {
		t.Errorf("tokenize(ü,b): %v %v", toks, err)
	}
}
