package sqlittle

import "testing"

// F15: the automatic index of a column-level UNIQUE / PRIMARY KEY constraint uses the column's declared
// collation (SQLite: PRAGMA index_xinfo shows NOCASE); sqlittle reports it without collation, so an
// equality search through that index compares with BINARY on an index sorted by NOCASE.
func TestF15ColumnConstraintIndexCollation(t *testing.T) {
	db, err := Open("F15_f15.sqlite") // copy /verif/findings/F15_f15.sqlite next to the test
	if err != nil {
		t.Fatal(err)
	}
	defer db.Close()
	var got []int64
	err = db.IndexedSelectEq("t", "sqlite_autoindex_t_1", Key{"BANANA"}, func(r Row) {
		var n int64
		r.Scan(&n)
		got = append(got, n)
	}, "n")
	if err != nil {
		t.Fatal(err)
	}
	if len(got) != 1 || got[0] != 1 {
		t.Errorf("IndexedSelectEq(name = 'BANANA') through the NOCASE autoindex: got %v, SQLite finds row n=1", got)
	}
}
