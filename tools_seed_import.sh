#!/bin/sh
# usage: tools_seed_import.sh <ID> <k>   -- confirm a sub-agent's mutation in a scratch worktree and keep it
# under /verif/seeded/<ID>-m<k>/ . Nothing is ever committed to /repo.
ID=$1; K=$2
SRC=${SEED_SRC:-/tmp/wt/out}/$ID/m$K
DST=/verif/seeded/$ID-m$K
WT=/tmp/seedwt-$ID-$K
export GOFLAGS=-mod=mod GOPROXY=off GOSUMDB=off GOTOOLCHAIN=local
rm -rf $WT; git -C /repo worktree prune; git -C /repo worktree add -q --detach $WT HEAD || exit 1
cd $WT
base() { go test -vet=off -count=1 -json ./... 2>/dev/null | python3 -c "
import sys,json
r={}
for l in sys.stdin:
    try: e=json.loads(l)
    except: continue
    if e.get('Test') and e.get('Action') in('pass','fail'): r[e['Package'].split('sqlittle')[-1]+'::'+e['Test']]=e['Action']
print('\n'.join(sorted(k+' '+v for k,v in r.items())))"; }
base > /tmp/seed-$ID-$K.base
if ! git apply --3way $SRC/patch.diff 2>/tmp/seed-$ID-$K.applyerr; then echo "$ID m$K: PATCH DOES NOT APPLY"; cat /tmp/seed-$ID-$K.applyerr; cd /; git -C /repo worktree remove --force $WT; exit 1; fi
git diff HEAD > /tmp/seed-$ID-$K.patch
go build ./... || { echo "$ID m$K: DOES NOT COMPILE"; cd /; git -C /repo worktree remove --force $WT; exit 1; }
base > /tmp/seed-$ID-$K.mut
SUITE=same; cmp -s /tmp/seed-$ID-$K.base /tmp/seed-$ID-$K.mut || SUITE=DIFFERENT
DEMODIR=$(python3 -c "import json;print(json.load(open('$SRC/meta.json'))['demo_dir'])")
RUNNAME=$(grep -ho 'func Test[A-Za-z0-9_]*' $SRC/demo_test.go | sed 's/func //' | paste -sd'|')
cp $SRC/demo_test.go $WT/$DEMODIR/zz_seed_demo_test.go
for f in $SRC/*.sqlite $SRC/*.db $SRC/*.sqlite-journal; do [ -f "$f" ] && cp "$f" $WT/$DEMODIR/; done
(cd $WT && go test -vet=off -count=1 -timeout 120s -run "^($RUNNAME)\$" ./$DEMODIR > /tmp/seed-$ID-$K.demo_mut 2>&1); MUT=$?
git checkout -q -- . 2>/dev/null; git apply -R /tmp/seed-$ID-$K.patch 2>/dev/null; git checkout -q HEAD -- $(git diff --name-only HEAD) 2>/dev/null
git stash -q 2>/dev/null; git stash drop -q 2>/dev/null
(cd $WT && go test -vet=off -count=1 -timeout 120s -run "^($RUNNAME)\$" ./$DEMODIR > /tmp/seed-$ID-$K.demo_base 2>&1); BASE=$?
echo "$ID m$K: suite=$SUITE demo_with_patch_exit=$MUT demo_pristine_exit=$BASE"
if [ "$SUITE" = same ] && [ $MUT -ne 0 ] && [ $BASE -eq 0 ]; then
  mkdir -p $DST; cp /tmp/seed-$ID-$K.patch $DST/patch.diff; cp $SRC/demo_test.go $DST/; for f in $SRC/*.sqlite $SRC/*.db $SRC/*.sqlite-journal; do [ -f "$f" ] && cp "$f" $DST/; done
  python3 - <<PY
import json
m=json.load(open('$SRC/meta.json'))
m['confirmed']={'suite_unchanged':True,'demo_fails_with_patch':True,'demo_passes_without':True,'ran':'tools_seed_import.sh $ID $K (scratch worktree of /repo HEAD, go test suite before/after, demo before/after)'}
json.dump(m,open('$DST/meta.json','w'),indent=1)
PY
  echo "$ID m$K: KEPT"
else
  echo "$ID m$K: REJECTED"; tail -5 /tmp/seed-$ID-$K.demo_mut; tail -5 /tmp/seed-$ID-$K.demo_base
fi
cd /; git -C /repo worktree remove --force $WT
rm -f /tmp/seed-$ID-$K.*
