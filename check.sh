#!/bin/sh
# usage: check.sh <PROPERTY-ID> [quick|thorough]
# Decides one property on /repo's current working tree (the verifier loads /repo's sources and
# contract files on every run). Exit 0 = held; exit 1 + VIOLATION lines otherwise.
cd /verif || exit 2
need=0
[ -x bin/govc ] || need=1
[ -x bin/goyacc ] || need=1
if [ $need -eq 0 ]; then
  for f in govc/*.go; do [ "$f" -nt bin/govc ] && need=1; done
fi
if [ $need -eq 1 ]; then sh /verif/setup.sh >&2 || exit 2; fi
export GOFLAGS=-mod=mod GOPROXY=off GOSUMDB=off GOTOOLCHAIN=local
exec bin/govc check -prop "$1" -tier "${2:-${VERIF_TIER:-quick}}"
