#!/usr/bin/env python3
# Assembles SELFTEST.md from selftest.sh logs: mk_selftest_md.py <old SELFTEST.md> <log> [<log> ...]
# Later logs win. Lines taken from the old file (not re-run in the given logs) are marked "(earlier run)".
import sys, re, os
old, logs = sys.argv[1], sys.argv[2:]
pat = re.compile(r'^(C\d\d-m\d+) \((C\d\d)\): (CAUGHT|MISSED)')
res, fresh = {}, set()
for l in open(old):
    m = pat.match(l)
    if m: res[m.group(1)] = l.rstrip('\n')
for f in logs:
    if not os.path.exists(f): continue
    for l in open(f):
        m = pat.match(l)
        if m:
            res[m.group(1)] = l.rstrip('\n'); fresh.add(m.group(1))
seeded = sorted(os.listdir('/verif/seeded'), key=lambda s: (s.split('-m')[0], int(s.split('-m')[1])))
out = []
for s in seeded:
    if s in res:
        out.append(res[s] + ('' if s in fresh else '   (earlier run)'))
    else:
        out.append(f'{s}: NOT RUN')
caught = sum(1 for s in seeded if s in res and ' CAUGHT ' in res[s])
missed = [s for s in seeded if s in res and ' MISSED' in res[s]]
notrun = [s for s in seeded if s not in res]
print(f'TOTAL {len(seeded)} CAUGHT {caught} MISSED {missed} NOTRUN {notrun} FRESH {len(fresh)}', file=sys.stderr)
print('\n'.join(out))
