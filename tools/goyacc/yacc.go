/*
Derived from Inferno's utils/iyacc/yacc.c
http://code.google.com/p/inferno-os/source/browse/utils/iyacc/yacc.c

This copyright NOTICE applies to all files in this directory and
subdirectories, unless another copyright notice appears in a given
file or subdirectory.  If you take substantial code from this software to use in
other programs, you must somehow include with it an appropriate
copyright notice that includes the copyright notice and the other
notices below.  It is fine (and often tidier) to do that in a separate
file such as NOTICE, LICENCE or COPYING.

	Copyright © 1994-1999 Lucent Technologies Inc.  All rights reserved.
	Portions Copyright © 1995-1997 C H Forsyth (forsyth@terzarima.net)
	Portions Copyright © 1997-1999 Vita Nuova Limited
	Portions Copyright © 2000-2007 Vita Nuova Holdings Limited (www.vitanuova.com)
	Portions Copyright © 2004,2006 Bruce Ellis
	Portions Copyright © 2005-2007 C H Forsyth (forsyth@terzarima.net)
	Revisions Copyright © 2000-2007 Lucent Technologies Inc. and others
	Portions Copyright © 2009 The Go Authors. All rights reserved.

Permission is hereby granted, free of charge, to any person obtaining a copy
of this software and associated documentation files (the "Software"), to deal
in the Software without restriction, including without limitation the rights
to use, copy, modify, merge, publish, distribute, sublicense, and/or sell
copies of the Software, and to permit persons to whom the Software is
furnished to do so, subject to the following conditions:

The above copyright notice and this permission notice shall be included in
all copies or substantial portions of the Software.

THE SOFTWARE IS PROVIDED "AS IS", WITHOUT WARRANTY OF ANY KIND, EXPRESS OR
IMPLIED, INCLUDING BUT NOT LIMITED TO THE WARRANTIES OF MERCHANTABILITY,
FITNESS FOR A PARTICULAR PURPOSE AND NONINFRINGEMENT.  IN NO EVENT SHALL THE
AUTHORS OR COPYRIGHT HOLDERS BE LIABLE FOR ANY CLAIM, DAMAGES OR OTHER
LIABILITY, WHETHER IN AN ACTION OF CONTRACT, TORT OR OTHERWISE, ARISING FROM,
OUT OF OR IN CONNECTION WITH THE SOFTWARE OR THE USE OR OTHER DEALINGS IN
THE SOFTWARE.
*/

package main

// yacc
// major difference is lack of stem ("y" variable)
//

import (
	"bufio"
	"bytes"
	"flag"
	"fmt"
	"go/format"
	"math"
	"os"
	"strconv"
	"strings"
	"unicode"
)

// the following are adjustable
// according to memory size
const (
	ACTSIZE  = 240000
	NSTATES  = 16000
	TEMPSIZE = 16000

	SYMINC   = 50  // increase for non-term or term
	RULEINC  = 50  // increase for max rule length prodptr[i]
	PRODINC  = 100 // increase for productions     prodptr
	WSETINC  = 50  // increase for working sets    wsets
	STATEINC = 200 // increase for states          statemem

	PRIVATE = 0xE000 // unicode private use

	// relationships which must hold:
	//	TEMPSIZE >= NTERMS + NNONTERM + 1;
	//	TEMPSIZE >= NSTATES;
	//

	NTBASE     = 010000
	ERRCODE    = 8190
	ACCEPTCODE = 8191
	YYLEXUNK   = 3
	TOKSTART   = 4 //index of first defined token
)

// no, left, right, binary assoc.
const (
	NOASC = iota
	LASC
	RASC
	BASC
)

// flags for state generation
const (
	DONE = iota
	MUSTDO
	MUSTLOOKAHEAD
)

// flags for a rule having an action, and being reduced
const (
	ACTFLAG = 1 << (iota + 2)
	REDFLAG
)

// output parser flags
const yyFlag = -1000

// parse tokens
const (
	IDENTIFIER = PRIVATE + iota
	MARK
	TERM
	LEFT
	RIGHT
	BINARY
	PREC
	LCURLY
	IDENTCOLON
	NUMBER
	START
	TYPEDEF
	TYPENAME
	UNION
	ERROR
)

const ENDFILE = 0
const EMPTY = 1
const WHOKNOWS = 0
const OK = 1
const NOMORE = -1000

// macros for getting associativity and precedence levels
func ASSOC(i int) int { return i & 3 }

func PLEVEL(i int) int { return (i >> 4) & 077 }

func TYPE(i int) int { return (i >> 10) & 077 }

// macros for setting associativity and precedence levels
func SETASC(i, j int) int { return i | j }

func SETPLEV(i, j int) int { return i | (j << 4) }

func SETTYPE(i, j int) int { return i | (j << 10) }

// I/O descriptors
var finput *bufio.Reader // input file
var stderr *bufio.Writer
var ftable *bufio.Writer    // y.go file
var fcode = &bytes.Buffer{} // saved code
var foutput *bufio.Writer   // y.output file

var fmtImported bool // output file has recorded an import of "fmt"

var oflag string  // -o [y.go]		- y.go file
var vflag string  // -v [y.output]	- y.output file
var lflag bool    // -l			- disable line directives
var prefix string // name prefix for identifiers, default yy

func init() {
	flag.StringVar(&oflag, "o", "y.go", "parser output")
	flag.StringVar(&prefix, "p", "yy", "name prefix to use in generated code")
	flag.StringVar(&vflag, "v", "y.output", "create parsing tables")
	flag.BoolVar(&lflag, "l", false, "disable line directives")
}

var initialstacksize = 16

// communication variables between various I/O routines
var infile string  // input file name
var numbval int    // value of an input number
var tokname string // input token name, slop for runes and 0
var tokflag = false

// structure declarations
type Lkset []int

type Pitem struct {
	prod   []int
	off    int // offset within the production
	first  int // first term or non-term in item
	prodno int // production number for sorting
}

type Item struct {
	pitem Pitem
	look  Lkset
}

type Symb struct {
	name    string
	noconst bool
	value   int
}

type Wset struct {
	pitem Pitem
	flag  int
	ws    Lkset
}

// storage of types
var ntypes int                     // number of types defined
var typeset = make(map[int]string) // pointers to type tags

// token information

var ntokens = 0 // number of tokens
var tokset []Symb
var toklev []int // vector with the precedence of the terminals

// nonterminal information

var nnonter = -1 // the number of nonterminals
var nontrst []Symb
var start int // start symbol

// state information

var nstate = 0                      // number of states
var pstate = make([]int, NSTATES+2) // index into statemem to the descriptions of the states
var statemem []Item
var tystate = make([]int, NSTATES) // contains type information about the states
var tstates []int                  // states generated by terminal gotos
var ntstates []int                 // states generated by nonterminal gotos
var mstates = make([]int, NSTATES) // chain of overflows of term/nonterm generation lists
var lastred int                    // number of last reduction of a state
var defact = make([]int, NSTATES)  // default actions of states

// lookahead set information

var nolook = 0  // flag to turn off lookahead computations
var tbitset = 0 // size of lookahead sets
var clset Lkset // temporary storage for lookahead computations

// working set information

var wsets []Wset
var cwp int

// storage for action table

var amem []int                   // action table storage
var memp int                     // next free action table position
var indgo = make([]int, NSTATES) // index to the stored goto table

// temporary vector, indexable by states, terms, or ntokens

var temp1 = make([]int, TEMPSIZE) // temporary storage, indexed by terms + ntokens or states
var lineno = 1                    // current input line number
var fatfl = 1                     // if on, error is fatal
var nerrors = 0                   // number of errors

// assigned token type values

var extval = 0

// grammar rule information

var nprod = 1      // number of productions
var prdptr [][]int // pointers to descriptions of productions
var levprd []int   // precedence levels for the productions
var rlines []int   // line number for this rule

// statistics collection variables

var zzgoent = 0
var zzgobest = 0
var zzacent = 0
var zzexcp = 0
var zzclose = 0
var zzrrconf = 0
var zzsrconf = 0
var zzstate = 0

// optimizer arrays

var yypgo [][]int
var optst [][]int
var ggreed []int
var pgo []int

var maxspr int // maximum spread of any entry
var maxoff int // maximum offset into a array
var maxa int

// storage for information about the nonterminals

var pres [][][]int // vector of pointers to productions yielding each nonterminal
var pfirst []Lkset
var pempty []int // vector of nonterminals nontrivially deriving e

// random stuff picked out from between functions

var indebug = 0 // debugging flag for cpfir
var pidebug = 0 // debugging flag for putitem
var gsdebug = 0 // debugging flag for stagen
var cldebug = 0 // debugging flag for closure
var pkdebug = 0 // debugging flag for apack
var g2debug = 0 // debugging for go2gen
var adb = 0     // debugging for callopt

type Resrv struct {
	name  string
	value int
}

var resrv = []Resrv{
	{"binary", BINARY},
	{"left", LEFT},
	{"nonassoc", BINARY},
	{"prec", PREC},
	{"right", RIGHT},
	{"start", START},
	{"term", TERM},
	{"token", TERM},
	{"type", TYPEDEF},
	{"union", UNION},
	{"struct", UNION},
	{"error", ERROR},
}

type Error struct {
	lineno int
	tokens []string
	msg    string
}

var errors []Error

type Row struct {
	actions       []int
	defaultAction int
}

var stateTable []Row

var zznewstate = 0

const EOF = -1

func main() {

	setup() // initialize and read productions

	tbitset = (ntokens + 32) / 32
	cpres()  // make table of which productions yield a given nonterminal
	cempty() // make a table of which nonterminals can match the empty string
	cpfir()  // make a table of firsts of nonterminals

	stagen() // generate the states

	yypgo = make([][]int, nnonter+1)
	optst = make([][]int, nstate)
	output() // write the states and the tables
	go2out()

	hideprod()
	summary()

	callopt()

	others()

	exit(0)
}

func setup() {
	var j, ty int

	stderr = bufio.NewWriter(os.Stderr)
	foutput = nil

	flag.Parse()
	if flag.NArg() != 1 {
		usage()
	}
	if initialstacksize < 1 {
		// never set so cannot happen
		fmt.Fprintf(stderr, "yacc: stack size too small\n")
		usage()
	}
	yaccpar = strings.Replace(yaccpartext, "$$", prefix, -1)
	openup()

	fmt.Fprintf(ftable, "// Code generated by goyacc %s. DO NOT EDIT.\n", strings.Join(os.Args[1:], " "))

	defin(0, "$end")
	extval = PRIVATE // tokens start in unicode 'private use'
	defin(0, "error")
	defin(1, "$accept")
	defin(0, "$unk")
	i := 0

	t := gettok()

outer:
	for {
		switch t {
		default:
			errorf("syntax error tok=%v", t-PRIVATE)

		case MARK, ENDFILE:
			break outer

		case ';':
			// Do nothing.

		case START:
			t = gettok()
			if t != IDENTIFIER {
				errorf("bad %%start construction")
			}
			start = chfind(1, tokname)

		case ERROR:
			lno := lineno
			var tokens []string
			for {
				t := gettok()
				if t == ':' {
					break
				}
				if t != IDENTIFIER && t != IDENTCOLON {
					errorf("bad syntax in %%error")
				}
				tokens = append(tokens, tokname)
				if t == IDENTCOLON {
					break
				}
			}
			if gettok() != IDENTIFIER {
				errorf("bad syntax in %%error")
			}
			errors = append(errors, Error{lno, tokens, tokname})

		case TYPEDEF:
			t = gettok()
			if t != TYPENAME {
				errorf("bad syntax in %%type")
			}
			ty = numbval
			for {
				t = gettok()
				switch t {
				case IDENTIFIER:
					t = chfind(1, tokname)
					if t < NTBASE {
						j = TYPE(toklev[t])
						if j != 0 && j != ty {
							errorf("type redeclaration of token %s",
								tokset[t].name)
						} else {
							toklev[t] = SETTYPE(toklev[t], ty)
						}
					} else {
						j = nontrst[t-NTBASE].value
						if j != 0 && j != ty {
							errorf("type redeclaration of nonterminal %v",
								nontrst[t-NTBASE].name)
						} else {
							nontrst[t-NTBASE].value = ty
						}
					}
					continue

				case ',':
					continue
				}
				break
			}
			continue

		case UNION:
			cpyunion()

		case LEFT, BINARY, RIGHT, TERM:
			// nonzero means new prec. and assoc.
			lev := t - TERM
			if lev != 0 {
				i++
			}
			ty = 0

			// get identifiers so defined
			t = gettok()

			// there is a type defined
			if t == TYPENAME {
				ty = numbval
				t = gettok()
			}
			for {
				switch t {
				case ',':
					t = gettok()
					continue

				case ';':
					// Do nothing.

				case IDENTIFIER:
					j = chfind(0, tokname)
					if j >= NTBASE {
						errorf("%v defined earlier as nonterminal", tokname)
					}
					if lev != 0 {
						if ASSOC(toklev[j]) != 0 {
							errorf("redeclaration of precedence of %v", tokname)
						}
						toklev[j] = SETASC(toklev[j], lev)
						toklev[j] = SETPLEV(toklev[j], i)
					}
					if ty != 0 {
						if TYPE(toklev[j]) != 0 {
							errorf("redeclaration of type of %v", tokname)
						}
						toklev[j] = SETTYPE(toklev[j], ty)
					}
					t = gettok()
					if t == NUMBER {
						tokset[j].value = numbval
						t = gettok()
					}

					continue
				}
				break
			}
			continue

		case LCURLY:
			cpycode()
		}
		t = gettok()
	}

	if t == ENDFILE {
		errorf("unexpected EOF before %%")
	}

	fmt.Fprintf(fcode, "switch %snt {\n", prefix)

	moreprod()
	prdptr[0] = []int{NTBASE, start, 1, 0}

	nprod = 1
	curprod := make([]int, RULEINC)
	t = gettok()
	if t != IDENTCOLON {
		errorf("bad syntax on first rule")
	}

	if start == 0 {
		prdptr[0][1] = chfind(1, tokname)
	}

	// read rules
	// put into prdptr array in the format
	// target
	// followed by id's of terminals and non-terminals
	// followed by -nprod

	for t != MARK && t != ENDFILE {
		mem := 0

		// process a rule
		rlines[nprod] = lineno
		ruleline := lineno
		if t == '|' {
			curprod[mem] = prdptr[nprod-1][0]
			mem++
		} else if t == IDENTCOLON {
			curprod[mem] = chfind(1, tokname)
			if curprod[mem] < NTBASE {
				lerrorf(ruleline, "token illegal on LHS of grammar rule")
			}
			mem++
		} else {
			lerrorf(ruleline, "illegal rule: missing semicolon or | ?")
		}

		// read rule body
		t = gettok()
		for {
			for t == IDENTIFIER {
				curprod[mem] = chfind(1, tokname)
				if curprod[mem] < NTBASE {
					levprd[nprod] = toklev[curprod[mem]]
				}
				mem++
				if mem >= len(curprod) {
					ncurprod := make([]int, mem+RULEINC)
					copy(ncurprod, curprod)
					curprod = ncurprod
				}
				t = gettok()
			}
			if t == PREC {
				if gettok() != IDENTIFIER {
					lerrorf(ruleline, "illegal %%prec syntax")
				}
				j = chfind(2, tokname)
				if j >= NTBASE {
					lerrorf(ruleline, "nonterminal %s illegal after %%prec", nontrst[j-NTBASE].name)
				}
				levprd[nprod] = toklev[j]
				t = gettok()
			}
			if t != '=' {
				break
			}
			levprd[nprod] |= ACTFLAG
			fmt.Fprintf(fcode, "\n\tcase %v:", nprod)
			fmt.Fprintf(fcode, "\n\t\t%sDollar = %sS[%spt-%v:%spt+1]", prefix, prefix, prefix, mem-1, prefix)
			cpyact(curprod, mem)

			// action within rule...
			t = gettok()
			if t == IDENTIFIER {
				// make it a nonterminal
				j = chfind(1, fmt.Sprintf("$$%v", nprod))

				//
				// the current rule will become rule number nprod+1
				// enter null production for action
				//
				prdptr[nprod] = make([]int, 2)
				prdptr[nprod][0] = j
				prdptr[nprod][1] = -nprod

				// update the production information
				nprod++
				moreprod()
				levprd[nprod] = levprd[nprod-1] & ^ACTFLAG
				levprd[nprod-1] = ACTFLAG
				rlines[nprod] = lineno

				// make the action appear in the original rule
				curprod[mem] = j
				mem++
				if mem >= len(curprod) {
					ncurprod := make([]int, mem+RULEINC)
					copy(ncurprod, curprod)
					curprod = ncurprod
				}
			}
		}

		for t == ';' {
			t = gettok()
		}
		curprod[mem] = -nprod
		mem++

		// check that default action is reasonable
		if ntypes != 0 && (levprd[nprod]&ACTFLAG) == 0 &&
			nontrst[curprod[0]-NTBASE].value != 0 {
			// no explicit action, LHS has value
			tempty := curprod[1]
			if tempty < 0 {
				lerrorf(ruleline, "must return a value, since LHS has a type")
			}
			if tempty >= NTBASE {
				tempty = nontrst[tempty-NTBASE].value
			} else {
				tempty = TYPE(toklev[tempty])
			}
			if tempty != nontrst[curprod[0]-NTBASE].value {
				lerrorf(ruleline, "default action causes potential type clash")
			}
		}
		moreprod()
		prdptr[nprod] = make([]int, mem)
		copy(prdptr[nprod], curprod)
		nprod++
		moreprod()
		levprd[nprod] = 0
	}

	if TEMPSIZE < ntokens+nnonter+1 {
		errorf("too many tokens (%d) or non-terminals (%d)", ntokens, nnonter)
	}

	//
	// end of all rules
	// dump out the prefix code
	//

	fmt.Fprintf(fcode, "\n\t}")

	// put out non-literal terminals
	for i := TOKSTART; i <= ntokens; i++ {
		// non-literals
		if !tokset[i].noconst {
			fmt.Fprintf(ftable, "const %v = %v\n", tokset[i].name, tokset[i].value)
		}
	}

	// put out names of tokens
	ftable.WriteRune('\n')
	fmt.Fprintf(ftable, "var %sToknames = [...]string{\n", prefix)
	for i := 1; i <= ntokens; i++ {
		fmt.Fprintf(ftable, "\t%q,\n", tokset[i].name)
	}
	fmt.Fprintf(ftable, "}\n")

	// put out names of states.
	// commented out to avoid a huge table just for debugging.
	// re-enable to have the names in the binary.
	ftable.WriteRune('\n')
	fmt.Fprintf(ftable, "var %sStatenames = [...]string{\n", prefix)
	//	for i:=TOKSTART; i<=ntokens; i++ {
	//		fmt.Fprintf(ftable, "\t%q,\n", tokset[i].name);
	//	}
	fmt.Fprintf(ftable, "}\n")

	ftable.WriteRune('\n')
	fmt.Fprintf(ftable, "const %sEofCode = 1\n", prefix)
	fmt.Fprintf(ftable, "const %sErrCode = 2\n", prefix)
	fmt.Fprintf(ftable, "const %sInitialStackSize = %v\n", prefix, initialstacksize)

	//
	// copy any postfix code
	//
	if t == MARK {
		if !lflag {
			fmt.Fprintf(ftable, "\n//line %v:%v\n", infile, lineno)
		}
		for {
			c := getrune(finput)
			if c == EOF {
				break
			}
			ftable.WriteRune(c)
		}
	}
}

// allocate enough room to hold another production
func moreprod() {
	n := len(prdptr)
	if nprod >= n {
		nn := n + PRODINC
		aprod := make([][]int, nn)
		alevprd := make([]int, nn)
		arlines := make([]int, nn)

		copy(aprod, prdptr)
		copy(alevprd, levprd)
		copy(arlines, rlines)

		prdptr = aprod
		levprd = alevprd
		rlines = arlines
	}
}

// define s to be a terminal if nt==0
// or a nonterminal if nt==1
func defin(nt int, s string) int {
	val := 0
	if nt != 0 {
		nnonter++
		if nnonter >= len(nontrst) {
			anontrst := make([]Symb, nnonter+SYMINC)
			copy(anontrst, nontrst)
			nontrst = anontrst
		}
		nontrst[nnonter] = Symb{name: s}
		return NTBASE + nnonter
	}

	// must be a token
	ntokens++
	if ntokens >= len(tokset) {
		nn := ntokens + SYMINC
		atokset := make([]Symb, nn)
		atoklev := make([]int, nn)

		copy(atoklev, toklev)
		copy(atokset, tokset)

		tokset = atokset
		toklev = atoklev
	}
	tokset[ntokens].name = s
	toklev[ntokens] = 0

	// establish value for token
	// single character literal
	if s[0] == '\'' || s[0] == '"' {
		q, err := strconv.Unquote(s)
		if err != nil {
			errorf("invalid token: %s", err)
		}
		rq := []rune(q)
		if len(rq) != 1 {
			errorf("character token too long: %s", s)
		}
		val = int(rq[0])
		if val == 0 {
			errorf("token value 0 is illegal")
		}
		tokset[ntokens].noconst = true
	} else {
		val = extval
		extval++
		if s[0] == '$' {
			tokset[ntokens].noconst = true
		}
	}

	tokset[ntokens].value = val
	return ntokens
}

var peekline = 0

func gettok() int {
	var i int
	var match, c rune

	tokname = ""
	for {
		lineno += peekline
		peekline = 0
		c = getrune(finput)
		for c == ' ' || c == '\n' || c == '\t' || c == '\v' || c == '\r' {
			if c == '\n' {
				lineno++
			}
			c = getrune(finput)
		}

		// skip comment -- fix
		if c != '/' {
			break
		}
		lineno += skipcom()
	}

	switch c {
	case EOF:
		if tokflag {
			fmt.Printf(">>> ENDFILE %v\n", lineno)
		}
		return ENDFILE

	case '{':
		ungetrune(finput, c)
		if tokflag {
			fmt.Printf(">>> ={ %v\n", lineno)
		}
		return '='

	case '<':
		// get, and look up, a type name (union member name)
		c = getrune(finput)
		for c != '>' && c != EOF && c != '\n' {
			tokname += string(c)
			c = getrune(finput)
		}

		if c != '>' {
			errorf("unterminated < ... > clause")
		}

		for i = 1; i <= ntypes; i++ {
			if typeset[i] == tokname {
				numbval = i
				if tokflag {
					fmt.Printf(">>> TYPENAME old <%v> %v\n", tokname, lineno)
				}
				return TYPENAME
			}
		}
		ntypes++
		numbval = ntypes
		typeset[numbval] = tokname
		if tokflag {
			fmt.Printf(">>> TYPENAME new <%v> %v\n", tokname, lineno)
		}
		return TYPENAME

	case '"', '\'':
		match = c
		tokname = string(c)
		for {
			c = getrune(finput)
			if c == '\n' || c == EOF {
				errorf("illegal or missing ' or \"")
			}
			if c == '\\' {
				tokname += string('\\')
				c = getrune(finput)
			} else if c == match {
				if tokflag {
					fmt.Printf(">>> IDENTIFIER \"%v\" %v\n", tokname, lineno)
				}
				tokname += string(c)
				return IDENTIFIER
			}
			tokname += string(c)
		}

	case '%':
		c = getrune(finput)
		switch c {
		case '%':
			if tokflag {
				fmt.Printf(">>> MARK %%%% %v\n", lineno)
			}
			return MARK
		case '=':
			if tokflag {
				fmt.Printf(">>> PREC %%= %v\n", lineno)
			}
			return PREC
		case '{':
			if tokflag {
				fmt.Printf(">>> LCURLY %%{ %v\n", lineno)
			}
			return LCURLY
		}

		getword(c)
		// find a reserved word
		for i := range resrv {
			if tokname == resrv[i].name {
				if tokflag {
					fmt.Printf(">>> %%%v %v %v\n", tokname,
						resrv[i].value-PRIVATE, lineno)
				}
				return resrv[i].value
			}
		}
		errorf("invalid escape, or illegal reserved word: %v", tokname)

	case '0', '1', '2', '3', '4', '5', '6', '7', '8', '9':
		numbval = int(c - '0')
		for {
			c = getrune(finput)
			if !isdigit(c) {
				break
			}
			numbval = numbval*10 + int(c-'0')
		}
		ungetrune(finput, c)
		if tokflag {
			fmt.Printf(">>> NUMBER %v %v\n", numbval, lineno)
		}
		return NUMBER

	default:
		if isword(c) || c == '.' || c == '$' {
			getword(c)
			break
		}
		if tokflag {
			fmt.Printf(">>> OPERATOR %v %v\n", string(c), lineno)
		}
		return int(c)
	}

	// look ahead to distinguish IDENTIFIER from IDENTCOLON
	c = getrune(finput)
	for c == ' ' || c == '\t' || c == '\n' || c == '\v' || c == '\r' || c == '/' {
		if c == '\n' {
			peekline++
		}
		// look for comments
		if c == '/' {
			peekline += skipcom()
		}
		c = getrune(finput)
	}
	if c == ':' {
		if tokflag {
			fmt.Printf(">>> IDENTCOLON %v: %v\n", tokname, lineno)
		}
		return IDENTCOLON
	}

	ungetrune(finput, c)
	if tokflag {
		fmt.Printf(">>> IDENTIFIER %v %v\n", tokname, lineno)
	}
	return IDENTIFIER
}

func getword(c rune) {
	tokname = ""
	for isword(c) || isdigit(c) || c == '.' || c == '$' {
		tokname += string(c)
		c = getrune(finput)
	}
	ungetrune(finput, c)
}

// determine the type of a symbol
func fdtype(t int) int {
	var v int
	var s string

	if t >= NTBASE {
		v = nontrst[t-NTBASE].value
		s = nontrst[t-NTBASE].name
	} else {
		v = TYPE(toklev[t])
		s = tokset[t].name
	}
	if v <= 0 {
		errorf("must specify type for %v", s)
	}
	return v
}

func chfind(t int, s string) int {
	if s[0] == '"' || s[0] == '\'' {
		t = 0
	}
	for i := 0; i <= ntokens; i++ {
		if s == tokset[i].name {
			return i
		}
	}
	for i := 0; i <= nnonter; i++ {
		if s == nontrst[i].name {
			return NTBASE + i
		}
	}

	// cannot find name
	if t > 1 {
		errorf("%v should have been defined earlier", s)
	}
	return defin(t, s)
}

// copy the union declaration to the output, and the define file if present
func cpyunion() {

	if !lflag {
		fmt.Fprintf(ftable, "\n//line %v:%v\n", infile, lineno)
	}
	fmt.Fprintf(ftable, "type %sSymType struct", prefix)

	level := 0

out:
	for {
		c := getrune(finput)
		if c == EOF {
			errorf("EOF encountered while processing %%union")
		}
		ftable.WriteRune(c)
		switch c {
		case '\n':
			lineno++
		case '{':
			if level == 0 {
				fmt.Fprintf(ftable, "\n\tyys int")
			}
			level++
		case '}':
			level--
			if level == 0 {
				break out
			}
		}
	}
	fmt.Fprintf(ftable, "\n\n")
}

// saves code between %{ and %}
// adds an import for __fmt__ the first time
func cpycode() {
	lno := lineno

	c := getrune(finput)
	if c == '\n' {
		c = getrune(finput)
		lineno++
	}
	if !lflag {
		fmt.Fprintf(ftable, "\n//line %v:%v\n", infile, lineno)
	}
	// accumulate until %}
	code := make([]rune, 0, 1024)
	for c != EOF {
		if c == '%' {
			c = getrune(finput)
			if c == '}' {
				emitcode(code, lno+1)
				return
			}
			code = append(code, '%')
		}
		code = append(code, c)
		if c == '\n' {
			lineno++
		}
		c = getrune(finput)
	}
	lineno = lno
	errorf("eof before %%}")
}

// emits code saved up from between %{ and %}
// called by cpycode
// adds an import for __yyfmt__ after the package clause
func emitcode(code []rune, lineno int) {
	for i, line := range lines(code) {
		writecode(line)
		if !fmtImported && isPackageClause(line) {
			fmt.Fprintln(ftable, `import __yyfmt__ "fmt"`)
			if !lflag {
				fmt.Fprintf(ftable, "//line %v:%v\n\t\t", infile, lineno+i)
			}
			fmtImported = true
		}
	}
}

// does this line look like a package clause?  not perfect: might be confused by early comments.
func isPackageClause(line []rune) bool {
	line = skipspace(line)

	// must be big enough.
	if len(line) < len("package X\n") {
		return false
	}

	// must start with "package"
	for i, r := range []rune("package") {
		if line[i] != r {
			return false
		}
	}
	line = skipspace(line[len("package"):])

	// must have another identifier.
	if len(line) == 0 || (!unicode.IsLetter(line[0]) && line[0] != '_') {
		return false
	}
	for len(line) > 0 {
		if !unicode.IsLetter(line[0]) && !unicode.IsDigit(line[0]) && line[0] != '_' {
			break
		}
		line = line[1:]
	}
	line = skipspace(line)

	// eol, newline, or comment must follow
	if len(line) == 0 {
		return true
	}
	if line[0] == '\r' || line[0] == '\n' {
		return true
	}
	if len(line) >= 2 {
		return line[0] == '/' && (line[1] == '/' || line[1] == '*')
	}
	return false
}

// skip initial spaces
func skipspace(line []rune) []rune {
	for len(line) > 0 {
		if line[0] != ' ' && line[0] != '\t' {
			break
		}
		line = line[1:]
	}
	return line
}

// break code into lines
func lines(code []rune) [][]rune {
	l := make([][]rune, 0, 100)
	for len(code) > 0 {
		// one line per loop
		var i int
		for i = range code {
			if code[i] == '\n' {
				break
			}
		}
		l = append(l, code[:i+1])
		code = code[i+1:]
	}
	return l
}

// writes code to ftable
func writecode(code []rune) {
	for _, r := range code {
		ftable.WriteRune(r)
	}
}

// skip over comments
// skipcom is called after reading a '/'
func skipcom() int {
	c := getrune(finput)
	if c == '/' {
		for c != EOF {
			if c == '\n' {
				return 1
			}
			c = getrune(finput)
		}
		errorf("EOF inside comment")
		return 0
	}
	if c != '*' {
		errorf("illegal comment")
	}

	nl := 0 // lines skipped
	c = getrune(finput)

l1:
	switch c {
	case '*':
		c = getrune(finput)
		if c == '/' {
			break
		}
		goto l1

	case '\n':
		nl++
		fallthrough

	default:
		c = getrune(finput)
		goto l1
	}
	return nl
}

// copy action to the next ; or closing }
func cpyact(curprod []int, max int) {

	if !lflag {
		fmt.Fprintf(fcode, "\n//line %v:%v", infile, lineno)
	}
	fmt.Fprint(fcode, "\n\t\t")

	lno := lineno
	brac := 0

loop:
	for {
		c := getrune(finput)

	swt:
		switch c {
		case ';':
			if brac == 0 {
				fcode.WriteRune(c)
				return
			}

		case '{':
			brac++

		case '$':
			s := 1
			tok := -1
			c = getrune(finput)

			// type description
			if c == '<' {
				ungetrune(finput, c)
				if gettok() != TYPENAME {
					errorf("bad syntax on $<ident> clause")
				}
				tok = numbval
				c = getrune(finput)
			}
			if c == '$' {
				fmt.Fprintf(fcode, "%sVAL", prefix)

				// put out the proper tag...
				if ntypes != 0 {
					if tok < 0 {
						tok = fdtype(curprod[0])
					}
					fmt.Fprintf(fcode, ".%v", typeset[tok])
				}
				continue loop
			}
			if c == '-' {
				s = -s
				c = getrune(finput)
			}
			j := 0
			if isdigit(c) {
				for isdigit(c) {
					j = j*10 + int(c-'0')
					c = getrune(finput)
				}
				ungetrune(finput, c)
				j = j * s
				if j >= max {
					errorf("Illegal use of $%v", j)
				}
			} else if isword(c) || c == '.' {
				// look for $name
				ungetrune(finput, c)
				if gettok() != IDENTIFIER {
					errorf("$ must be followed by an identifier")
				}
				tokn := chfind(2, tokname)
				fnd := -1
				c = getrune(finput)
				if c != '@' {
					ungetrune(finput, c)
				} else if gettok() != NUMBER {
					errorf("@ must be followed by number")
				} else {
					fnd = numbval
				}
				for j = 1; j < max; j++ {
					if tokn == curprod[j] {
						fnd--
						if fnd <= 0 {
							break
						}
					}
				}
				if j >= max {
					errorf("$name or $name@number not found")
				}
			} else {
				fcode.WriteRune('$')
				if s < 0 {
					fcode.WriteRune('-')
				}
				ungetrune(finput, c)
				continue loop
			}
			fmt.Fprintf(fcode, "%sDollar[%v]", prefix, j)

			// put out the proper tag
			if ntypes != 0 {
				if j <= 0 && tok < 0 {
					errorf("must specify type of $%v", j)
				}
				if tok < 0 {
					tok = fdtype(curprod[j])
				}
				fmt.Fprintf(fcode, ".%v", typeset[tok])
			}
			continue loop

		case '}':
			brac--
			if brac != 0 {
				break
			}
			fcode.WriteRune(c)
			return

		case '/':
			nc := getrune(finput)
			if nc != '/' && nc != '*' {
				ungetrune(finput, nc)
				break
			}
			// a comment
			fcode.WriteRune(c)
			fcode.WriteRune(nc)
			c = getrune(finput)
			for c != EOF {
				switch {
				case c == '\n':
					lineno++
					if nc == '/' { // end of // comment
						break swt
					}
				case c == '*' && nc == '*': // end of /* comment?
					nnc := getrune(finput)
					if nnc == '/' {
						fcode.WriteRune('*')
						fcode.WriteRune('/')
						continue loop
					}
					ungetrune(finput, nnc)
				}
				fcode.WriteRune(c)
				c = getrune(finput)
			}
			errorf("EOF inside comment")

		case '\'', '"':
			// character string or constant
			match := c
			fcode.WriteRune(c)
			c = getrune(finput)
			for c != EOF {
				if c == '\\' {
					fcode.WriteRune(c)
					c = getrune(finput)
					if c == '\n' {
						lineno++
					}
				} else if c == match {
					break swt
				}
				if c == '\n' {
					errorf("newline in string or char const")
				}
				fcode.WriteRune(c)
				c = getrune(finput)
			}
			errorf("EOF in string or character constant")

		case EOF:
			lineno = lno
			errorf("action does not terminate")

		case '\n':
			fmt.Fprint(fcode, "\n\t")
			lineno++
			continue loop
		}

		fcode.WriteRune(c)
	}
}

func openup() {
	infile = flag.Arg(0)
	finput = open(infile)
	if finput == nil {
		errorf("cannot open %v", infile)
	}

	foutput = nil
	if vflag != "" {
		foutput = create(vflag)
		if foutput == nil {
			errorf("can't create file %v", vflag)
		}
	}

	ftable = nil
	if oflag == "" {
		oflag = "y.go"
	}
	ftable = create(oflag)
	if ftable == nil {
		errorf("can't create file %v", oflag)
	}

}

// return a pointer to the name of symbol i
func symnam(i int) string {
	var s string

	if i >= NTBASE {
		s = nontrst[i-NTBASE].name
	} else {
		s = tokset[i].name
	}
	return s
}

// set elements 0 through n-1 to c
func aryfil(v []int, n, c int) {
	for i := 0; i < n; i++ {
		v[i] = c
	}
}

// compute an array with the beginnings of productions yielding given nonterminals
// The array pres points to these lists
// the array pyield has the lists: the total size is only NPROD+1
func cpres() {
	pres = make([][][]int, nnonter+1)
	curres := make([][]int, nprod)

	if false {
		for j := 0; j <= nnonter; j++ {
			fmt.Printf("nnonter[%v] = %v\n", j, nontrst[j].name)
		}
		for j := 0; j < nprod; j++ {
			fmt.Printf("prdptr[%v][0] = %v+NTBASE\n", j, prdptr[j][0]-NTBASE)
		}
	}

	fatfl = 0 // make undefined symbols nonfatal
	for i := 0; i <= nnonter; i++ {
		n := 0
		c := i + NTBASE
		for j := 0; j < nprod; j++ {
			if prdptr[j][0] == c {
				curres[n] = prdptr[j][1:]
				n++
			}
		}
		if n == 0 {
			errorf("nonterminal %v not defined", nontrst[i].name)
			continue
		}
		pres[i] = make([][]int, n)
		copy(pres[i], curres)
	}
	fatfl = 1
	if nerrors != 0 {
		summary()
		exit(1)
	}
}

// mark nonterminals which derive the empty string
// also, look for nonterminals which don't derive any token strings
func cempty() {
	var i, p, np int
	var prd []int

	pempty = make([]int, nnonter+1)

	// first, use the array pempty to detect productions that can never be reduced
	// set pempty to WHONOWS
	aryfil(pempty, nnonter+1, WHOKNOWS)

	// now, look at productions, marking nonterminals which derive something
more:
	for {
		for i = 0; i < nprod; i++ {
			prd = prdptr[i]
			if pempty[prd[0]-NTBASE] != 0 {
				continue
			}
			np = len(prd) - 1
			for p = 1; p < np; p++ {
				if prd[p] >= NTBASE && pempty[prd[p]-NTBASE] == WHOKNOWS {
					break
				}
			}
			// production can be derived
			if p == np {
				pempty[prd[0]-NTBASE] = OK
				continue more
			}
		}
		break
	}

	// now, look at the nonterminals, to see if they are all OK
	for i = 0; i <= nnonter; i++ {
		// the added production rises or falls as the start symbol ...
		if i == 0 {
			continue
		}
		if pempty[i] != OK {
			fatfl = 0
			errorf("nonterminal %s never derives any token string", nontrst[i].name)
		}
	}

	if nerrors != 0 {
		summary()
		exit(1)
	}

	// now, compute the pempty array, to see which nonterminals derive the empty string
	// set pempty to WHOKNOWS
	aryfil(pempty, nnonter+1, WHOKNOWS)

	// loop as long as we keep finding empty nonterminals

again:
	for {
	next:
		for i = 1; i < nprod; i++ {
			// not known to be empty
			prd = prdptr[i]
			if pempty[prd[0]-NTBASE] != WHOKNOWS {
				continue
			}
			np = len(prd) - 1
			for p = 1; p < np; p++ {
				if prd[p] < NTBASE || pempty[prd[p]-NTBASE] != EMPTY {
					continue next
				}
			}

			// we have a nontrivially empty nonterminal
			pempty[prd[0]-NTBASE] = EMPTY

			// got one ... try for another
			continue again
		}
		return
	}
}

// compute an array with the first of nonterminals
func cpfir() {
	var s, n, p, np, ch, i int
	var curres [][]int
	var prd []int

	wsets = make([]Wset, nnonter+WSETINC)
	pfirst = make([]Lkset, nnonter+1)
	for i = 0; i <= nnonter; i++ {
		wsets[i].ws = mkset()
		pfirst[i] = mkset()
		curres = pres[i]
		n = len(curres)

		// initially fill the sets
		for s = 0; s < n; s++ {
			prd = curres[s]
			np = len(prd) - 1
			for p = 0; p < np; p++ {
				ch = prd[p]
				if ch < NTBASE {
					setbit(pfirst[i], ch)
					break
				}
				if pempty[ch-NTBASE] == 0 {
					break
				}
			}
		}
	}

	// now, reflect transitivity
	changes := 1
	for changes != 0 {
		changes = 0
		for i = 0; i <= nnonter; i++ {
			curres = pres[i]
			n = len(curres)
			for s = 0; s < n; s++ {
				prd = curres[s]
				np = len(prd) - 1
				for p = 0; p < np; p++ {
					ch = prd[p] - NTBASE
					if ch < 0 {
						break
					}
					changes |= setunion(pfirst[i], pfirst[ch])
					if pempty[ch] == 0 {
						break
					}
				}
			}
		}
	}

	if indebug == 0 {
		return
	}
	if foutput != nil {
		for i = 0; i <= nnonter; i++ {
			fmt.Fprintf(foutput, "\n%v: %v %v\n",
				nontrst[i].name, pfirst[i], pempty[i])
		}
	}
}

// generate the states
func stagen() {
	// initialize
	nstate = 0
	tstates = make([]int, ntokens+1)  // states generated by terminal gotos
	ntstates = make([]int, nnonter+1) // states generated by nonterminal gotos
	amem = make([]int, ACTSIZE)
	memp = 0

	clset = mkset()
	pstate[0] = 0
	pstate[1] = 0
	aryfil(clset, tbitset, 0)
	putitem(Pitem{prdptr[0], 0, 0, 0}, clset)
	tystate[0] = MUSTDO
	nstate = 1
	pstate[2] = pstate[1]

	//
	// now, the main state generation loop
	// first pass generates all of the states
	// later passes fix up lookahead
	// could be sped up a lot by remembering
	// results of the first pass rather than recomputing
	//
	first := 1
	for more := 1; more != 0; first = 0 {
		more = 0
		for i := 0; i < nstate; i++ {
			if tystate[i] != MUSTDO {
				continue
			}

			tystate[i] = DONE
			aryfil(temp1, nnonter+1, 0)

			// take state i, close it, and do gotos
			closure(i)

			// generate goto's
			for p := 0; p < cwp; p++ {
				pi := wsets[p]
				if pi.flag != 0 {
					continue
				}
				wsets[p].flag = 1
				c := pi.pitem.first
				if c <= 1 {
					if pstate[i+1]-pstate[i] <= p {
						tystate[i] = MUSTLOOKAHEAD
					}
					continue
				}

				// do a goto on c
				putitem(wsets[p].pitem, wsets[p].ws)
				for q := p + 1; q < cwp; q++ {
					// this item contributes to the goto
					if c == wsets[q].pitem.first {
						putitem(wsets[q].pitem, wsets[q].ws)
						wsets[q].flag = 1
					}
				}

				if c < NTBASE {
					state(c) // register new state
				} else {
					temp1[c-NTBASE] = state(c)
				}
			}

			if gsdebug != 0 && foutput != nil {
				fmt.Fprintf(foutput, "%v: ", i)
				for j := 0; j <= nnonter; j++ {
					if temp1[j] != 0 {
						fmt.Fprintf(foutput, "%v %v,", nontrst[j].name, temp1[j])
					}
				}
				fmt.Fprintf(foutput, "\n")
			}

			if first != 0 {
				indgo[i] = apack(temp1[1:], nnonter-1) - 1
			}

			more++
		}
	}
}

// generate the closure of state i
func closure(i int) {
	zzclose++

	// first, copy kernel of state i to wsets
	cwp = 0
	q := pstate[i+1]
	for p := pstate[i]; p < q; p++ {
		wsets[cwp].pitem = statemem[p].pitem
		wsets[cwp].flag = 1 // this item must get closed
		copy(wsets[cwp].ws, statemem[p].look)
		cwp++
	}

	// now, go through the loop, closing each item
	work := 1
	for work != 0 {
		work = 0
		for u := 0; u < cwp; u++ {
			if wsets[u].flag == 0 {
				continue
			}

			// dot is before c
			c := wsets[u].pitem.first
			if c < NTBASE {
				wsets[u].flag = 0
				// only interesting case is where . is before nonterminal
				continue
			}

			// compute the lookahead
			aryfil(clset, tbitset, 0)

			// find items involving c
			for v := u; v < cwp; v++ {
				if wsets[v].flag != 1 || wsets[v].pitem.first != c {
					continue
				}
				pi := wsets[v].pitem.prod
				ipi := wsets[v].pitem.off + 1

				wsets[v].flag = 0
				if nolook != 0 {
					continue
				}

				ch := pi[ipi]
				ipi++
				for ch > 0 {
					// terminal symbol
					if ch < NTBASE {
						setbit(clset, ch)
						break
					}

					// nonterminal symbol
					setunion(clset, pfirst[ch-NTBASE])
					if pempty[ch-NTBASE] == 0 {
						break
					}
					ch = pi[ipi]
					ipi++
				}
				if ch <= 0 {
					setunion(clset, wsets[v].ws)
				}
			}

			//
			// now loop over productions derived from c
			//
			curres := pres[c-NTBASE]
			n := len(curres)

		nexts:
			// initially fill the sets
			for s := 0; s < n; s++ {
				prd := curres[s]

				//
				// put these items into the closure
				// is the item there
				//
				for v := 0; v < cwp; v++ {
					// yes, it is there
					if wsets[v].pitem.off == 0 &&
						aryeq(wsets[v].pitem.prod, prd) != 0 {
						if nolook == 0 &&
							setunion(wsets[v].ws, clset) != 0 {
							wsets[v].flag = 1
							work = 1
						}
						continue nexts
					}
				}

				//  not there; make a new entry
				if cwp >= len(wsets) {
					awsets := make([]Wset, cwp+WSETINC)
					copy(awsets, wsets)
					wsets = awsets
				}
				wsets[cwp].pitem = Pitem{prd, 0, prd[0], -prd[len(prd)-1]}
				wsets[cwp].flag = 1
				wsets[cwp].ws = mkset()
				if nolook == 0 {
					work = 1
					copy(wsets[cwp].ws, clset)
				}
				cwp++
			}
		}
	}

	// have computed closure; flags are reset; return
	if cldebug != 0 && foutput != nil {
		fmt.Fprintf(foutput, "\nState %v, nolook = %v\n", i, nolook)
		for u := 0; u < cwp; u++ {
			if wsets[u].flag != 0 {
				fmt.Fprintf(foutput, "flag set\n")
			}
			wsets[u].flag = 0
			fmt.Fprintf(foutput, "\t%v", writem(wsets[u].pitem))
			prlook(wsets[u].ws)
			fmt.Fprintf(foutput, "\n")
		}
	}
}

// sorts last state,and sees if it equals earlier ones. returns state number
func state(c int) int {
	zzstate++
	p1 := pstate[nstate]
	p2 := pstate[nstate+1]
	if p1 == p2 {
		return 0 // null state
	}

	// sort the items
	var k, l int
	for k = p1 + 1; k < p2; k++ { // make k the biggest
		for l = k; l > p1; l-- {
			if statemem[l].pitem.prodno < statemem[l-1].pitem.prodno ||
				statemem[l].pitem.prodno == statemem[l-1].pitem.prodno &&
					statemem[l].pitem.off < statemem[l-1].pitem.off {
				s := statemem[l]
				statemem[l] = statemem[l-1]
				statemem[l-1] = s
			} else {
				break
			}
		}
	}

	size1 := p2 - p1 // size of state

	var i int
	if c >= NTBASE {
		i = ntstates[c-NTBASE]
	} else {
		i = tstates[c]
	}

look:
	for ; i != 0; i = mstates[i] {
		// get ith state
		q1 := pstate[i]
		q2 := pstate[i+1]
		size2 := q2 - q1
		if size1 != size2 {
			continue
		}
		k = p1
		for l = q1; l < q2; l++ {
			if aryeq(statemem[l].pitem.prod, statemem[k].pitem.prod) == 0 ||
				statemem[l].pitem.off != statemem[k].pitem.off {
				continue look
			}
			k++
		}

		// found it
		pstate[nstate+1] = pstate[nstate] // delete last state

		// fix up lookaheads
		if nolook != 0 {
			return i
		}
		k = p1
		for l = q1; l < q2; l++ {
			if setunion(statemem[l].look, statemem[k].look) != 0 {
				tystate[i] = MUSTDO
			}
			k++
		}
		return i
	}

	// state is new
	zznewstate++
	if nolook != 0 {
		errorf("yacc state/nolook error")
	}
	pstate[nstate+2] = p2
	if nstate+1 >= NSTATES {
		errorf("too many states")
	}
	if c >= NTBASE {
		mstates[nstate] = ntstates[c-NTBASE]
		ntstates[c-NTBASE] = nstate
	} else {
		mstates[nstate] = tstates[c]
		tstates[c] = nstate
	}
	tystate[nstate] = MUSTDO
	nstate++
	return nstate - 1
}

func putitem(p Pitem, set Lkset) {
	p.off++
	p.first = p.prod[p.off]

	if pidebug != 0 && foutput != nil {
		fmt.Fprintf(foutput, "putitem(%v), state %v\n", writem(p), nstate)
	}
	j := pstate[nstate+1]
	if j >= len(statemem) {
		asm := make([]Item, j+STATEINC)
		copy(asm, statemem)
		statemem = asm
	}
	statemem[j].pitem = p
	if nolook == 0 {
		s := mkset()
		copy(s, set)
		statemem[j].look = s
	}
	j++
	pstate[nstate+1] = j
}

// creates output string for item pointed to by pp
func writem(pp Pitem) string {
	var i int

	p := pp.prod
	q := chcopy(nontrst[prdptr[pp.prodno][0]-NTBASE].name) + ": "
	npi := pp.off

	pi := aryeq(p, prdptr[pp.prodno])

	for {
		c := ' '
		if pi == npi {
			c = '.'
		}
		q += string(c)

		i = p[pi]
		pi++
		if i <= 0 {
			break
		}
		q += chcopy(symnam(i))
	}

	// an item calling for a reduction
	i = p[npi]
	if i < 0 {
		q += fmt.Sprintf("    (%v)", -i)
	}

	return q
}

// pack state i from temp1 into amem
func apack(p []int, n int) int {
	//
	// we don't need to worry about checking because
	// we will only look at entries known to be there...
	// eliminate leading and trailing 0's
	//
	off := 0
	pp := 0
	for ; pp <= n && p[pp] == 0; pp++ {
		off--
	}

	// no actions
	if pp > n {
		return 0
	}
	for ; n > pp && p[n] == 0; n-- {
	}
	p = p[pp : n+1]

	// now, find a place for the elements from p to q, inclusive
	r := len(amem) - len(p)

nextk:
	for rr := 0; rr <= r; rr++ {
		qq := rr
		for pp = 0; pp < len(p); pp++ {
			if p[pp] != 0 {
				if p[pp] != amem[qq] && amem[qq] != 0 {
					continue nextk
				}
			}
			qq++
		}

		// we have found an acceptable k
		if pkdebug != 0 && foutput != nil {
			fmt.Fprintf(foutput, "off = %v, k = %v\n", off+rr, rr)
		}
		qq = rr
		for pp = 0; pp < len(p); pp++ {
			if p[pp] != 0 {
				if qq > memp {
					memp = qq
				}
				amem[qq] = p[pp]
			}
			qq++
		}
		if pkdebug != 0 && foutput != nil {
			for pp = 0; pp <= memp; pp += 10 {
				fmt.Fprintf(foutput, "\n")
				for qq = pp; qq <= pp+9; qq++ {
					fmt.Fprintf(foutput, "%v ", amem[qq])
				}
				fmt.Fprintf(foutput, "\n")
			}
		}
		return off + rr
	}
	errorf("no space in action table")
	return 0
}

// print the output for the states
func output() {
	var c, u, v int

	if !lflag {
		fmt.Fprintf(ftable, "\n//line yacctab:1")
	}
	var actions []int

	if len(errors) > 0 {
		stateTable = make([]Row, nstate)
	}

	noset := mkset()

	// output the stuff for state i
	for i := 0; i < nstate; i++ {
		nolook = 0
		if tystate[i] != MUSTLOOKAHEAD {
			nolook = 1
		}
		closure(i)

		// output actions
		nolook = 1
		aryfil(temp1, ntokens+nnonter+1, 0)
		for u = 0; u < cwp; u++ {
			c = wsets[u].pitem.first
			if c > 1 && c < NTBASE && temp1[c] == 0 {
				for v = u; v < cwp; v++ {
					if c == wsets[v].pitem.first {
						putitem(wsets[v].pitem, noset)
					}
				}
				temp1[c] = state(c)
			} else if c > NTBASE {
				c -= NTBASE
				if temp1[c+ntokens] == 0 {
					temp1[c+ntokens] = amem[indgo[i]+c]
				}
			}
		}
		if i == 1 {
			temp1[1] = ACCEPTCODE
		}

		// now, we have the shifts; look at the reductions
		lastred = 0
		for u = 0; u < cwp; u++ {
			c = wsets[u].pitem.first

			// reduction
			if c > 0 {
				continue
			}
			lastred = -c
			us := wsets[u].ws
			for k := 0; k <= ntokens; k++ {
				if bitset(us, k) == 0 {
					continue
				}
				if temp1[k] == 0 {
					temp1[k] = c
				} else if temp1[k] < 0 { // reduce/reduce conflict
					if foutput != nil {
						fmt.Fprintf(foutput,
							"\n %v: reduce/reduce conflict  (red'ns "+
								"%v and %v) on %v",
							i, -temp1[k], lastred, symnam(k))
					}
					if -temp1[k] > lastred {
						temp1[k] = -lastred
					}
					zzrrconf++
				} else {
					// potential shift/reduce conflict
					precftn(lastred, k, i)
				}
			}
		}
		actions = addActions(actions, i)
	}

	arrayOutColumns("Exca", actions, 2, false)
	fmt.Fprintf(ftable, "\n")
	ftable.WriteRune('\n')
	fmt.Fprintf(ftable, "const %sPrivate = %v\n", prefix, PRIVATE)
}

// decide a shift/reduce conflict by precedence.
// r is a rule number, t a token number
// the conflict is in state s
// temp1[t] is changed to reflect the action
func precftn(r, t, s int) {
	action := NOASC

	lp := levprd[r]
	lt := toklev[t]
	if PLEVEL(lt) == 0 || PLEVEL(lp) == 0 {
		// conflict
		if foutput != nil {
			fmt.Fprintf(foutput,
				"\n%v: shift/reduce conflict (shift %v(%v), red'n %v(%v)) on %v",
				s, temp1[t], PLEVEL(lt), r, PLEVEL(lp), symnam(t))
		}
		zzsrconf++
		return
	}
	if PLEVEL(lt) == PLEVEL(lp) {
		action = ASSOC(lt)
	} else if PLEVEL(lt) > PLEVEL(lp) {
		action = RASC // shift
	} else {
		action = LASC
	} // reduce
	switch action {
	case BASC: // error action
		temp1[t] = ERRCODE
	case LASC: // reduce
		temp1[t] = -r
	}
}

// output state i
// temp1 has the actions, lastred the default
func addActions(act []int, i int) []int {
	var p, p1 int

	// find the best choice for lastred
	lastred = 0
	ntimes := 0
	for j := 0; j <= ntokens; j++ {
		if temp1[j] >= 0 {
			continue
		}
		if temp1[j]+lastred == 0 {
			continue
		}
		// count the number of appearances of temp1[j]
		count := 0
		tred := -temp1[j]
		levprd[tred] |= REDFLAG
		for p = 0; p <= ntokens; p++ {
			if temp1[p]+tred == 0 {
				count++
			}
		}
		if count > ntimes {
			lastred = tred
			ntimes = count
		}
	}

	//
	// for error recovery, arrange that, if there is a shift on the
	// error recovery token, `error', that the default be the error action
	//
	if temp1[2] > 0 {
		lastred = 0
	}

	// clear out entries in temp1 which equal lastred
	// count entries in optst table
	n := 0
	for p = 0; p <= ntokens; p++ {
		p1 = temp1[p]
		if p1+lastred == 0 {
			temp1[p] = 0
			p1 = 0
		}
		if p1 > 0 && p1 != ACCEPTCODE && p1 != ERRCODE {
			n++
		}
	}

	wrstate(i)
	defact[i] = lastred
	flag := 0
	os := make([]int, n*2)
	n = 0
	for p = 0; p <= ntokens; p++ {
		p1 = temp1[p]
		if p1 != 0 {
			if p1 < 0 {
				p1 = -p1
			} else if p1 == ACCEPTCODE {
				p1 = -1
			} else if p1 == ERRCODE {
				p1 = 0
			} else {
				os[n] = p
				n++
				os[n] = p1
				n++
				zzacent++
				continue
			}
			if flag == 0 {
				act = append(act, -1, i)
			}
			flag++
			act = append(act, p, p1)
			zzexcp++
		}
	}
	if flag != 0 {
		defact[i] = -2
		act = append(act, -2, lastred)
	}
	optst[i] = os
	return act
}

// writes state i
func wrstate(i int) {
	var j0, j1, u int
	var pp, qq int

	if len(errors) > 0 {
		actions := append([]int(nil), temp1...)
		defaultAction := ERRCODE
		if lastred != 0 {
			defaultAction = -lastred
		}
		stateTable[i] = Row{actions, defaultAction}
	}

	if foutput == nil {
		return
	}
	fmt.Fprintf(foutput, "\nstate %v\n", i)
	qq = pstate[i+1]
	for pp = pstate[i]; pp < qq; pp++ {
		fmt.Fprintf(foutput, "\t%v\n", writem(statemem[pp].pitem))
	}
	if tystate[i] == MUSTLOOKAHEAD {
		// print out empty productions in closure
		for u = pstate[i+1] - pstate[i]; u < cwp; u++ {
			if wsets[u].pitem.first < 0 {
				fmt.Fprintf(foutput, "\t%v\n", writem(wsets[u].pitem))
			}
		}
	}

	// check for state equal to another
	for j0 = 0; j0 <= ntokens; j0++ {
		j1 = temp1[j0]
		if j1 != 0 {
			fmt.Fprintf(foutput, "\n\t%v  ", symnam(j0))

			// shift, error, or accept
			if j1 > 0 {
				if j1 == ACCEPTCODE {
					fmt.Fprintf(foutput, "accept")
				} else if j1 == ERRCODE {
					fmt.Fprintf(foutput, "error")
				} else {
					fmt.Fprintf(foutput, "shift %v", j1)
				}
			} else {
				fmt.Fprintf(foutput, "reduce %v (src line %v)", -j1, rlines[-j1])
			}
		}
	}

	// output the final production
	if lastred != 0 {
		fmt.Fprintf(foutput, "\n\t.  reduce %v (src line %v)\n\n",
			lastred, rlines[lastred])
	} else {
		fmt.Fprintf(foutput, "\n\t.  error\n\n")
	}

	// now, output nonterminal actions
	j1 = ntokens
	for j0 = 1; j0 <= nnonter; j0++ {
		j1++
		if temp1[j1] != 0 {
			fmt.Fprintf(foutput, "\t%v  goto %v\n", symnam(j0+NTBASE), temp1[j1])
		}
	}
}

// output the gotos for the nontermninals
func go2out() {
	for i := 1; i <= nnonter; i++ {
		go2gen(i)

		// find the best one to make default
		best := -1
		times := 0

		// is j the most frequent
		for j := 0; j < nstate; j++ {
			if tystate[j] == 0 {
				continue
			}
			if tystate[j] == best {
				continue
			}

			// is tystate[j] the most frequent
			count := 0
			cbest := tystate[j]
			for k := j; k < nstate; k++ {
				if tystate[k] == cbest {
					count++
				}
			}
			if count > times {
				best = cbest
				times = count
			}
		}

		// best is now the default entry
		zzgobest += times - 1
		n := 0
		for j := 0; j < nstate; j++ {
			if tystate[j] != 0 && tystate[j] != best {
				n++
			}
		}
		goent := make([]int, 2*n+1)
		n = 0
		for j := 0; j < nstate; j++ {
			if tystate[j] != 0 && tystate[j] != best {
				goent[n] = j
				n++
				goent[n] = tystate[j]
				n++
				zzgoent++
			}
		}

		// now, the default
		if best == -1 {
			best = 0
		}

		zzgoent++
		goent[n] = best
		yypgo[i] = goent
	}
}

// output the gotos for nonterminal c
func go2gen(c int) {
	var i, cc, p, q int

	// first, find nonterminals with gotos on c
	aryfil(temp1, nnonter+1, 0)
	temp1[c] = 1
	work := 1
	for work != 0 {
		work = 0
		for i = 0; i < nprod; i++ {
			// cc is a nonterminal with a goto on c
			cc = prdptr[i][1] - NTBASE
			if cc >= 0 && temp1[cc] != 0 {
				// thus, the left side of production i does too
				cc = prdptr[i][0] - NTBASE
				if temp1[cc] == 0 {
					work = 1
					temp1[cc] = 1
				}
			}
		}
	}

	// now, we have temp1[c] = 1 if a goto on c in closure of cc
	if g2debug != 0 && foutput != nil {
		fmt.Fprintf(foutput, "%v: gotos on ", nontrst[c].name)
		for i = 0; i <= nnonter; i++ {
			if temp1[i] != 0 {
				fmt.Fprintf(foutput, "%v ", nontrst[i].name)
			}
		}
		fmt.Fprintf(foutput, "\n")
	}

	// now, go through and put gotos into tystate
	aryfil(tystate, nstate, 0)
	for i = 0; i < nstate; i++ {
		q = pstate[i+1]
		for p = pstate[i]; p < q; p++ {
			cc = statemem[p].pitem.first
			if cc >= NTBASE {
				// goto on c is possible
				if temp1[cc-NTBASE] != 0 {
					tystate[i] = amem[indgo[i]+c]
					break
				}
			}
		}
	}
}

// in order to free up the mem and amem arrays for the optimizer,
// and still be able to output yyr1, etc., after the sizes of
// the action array is known, we hide the nonterminals
// derived by productions in levprd.
func hideprod() {
	nred := 0
	levprd[0] = 0
	for i := 1; i < nprod; i++ {
		if (levprd[i] & REDFLAG) == 0 {
			if foutput != nil {
				fmt.Fprintf(foutput, "Rule not reduced: %v\n",
					writem(Pitem{prdptr[i], 0, 0, i}))
			}
			fmt.Printf("rule %v never reduced\n", writem(Pitem{prdptr[i], 0, 0, i}))
			nred++
		}
		levprd[i] = prdptr[i][0] - NTBASE
	}
	if nred != 0 {
		fmt.Printf("%v rules never reduced\n", nred)
	}
}

func callopt() {
	var j, k, p, q, i int
	var v []int

	pgo = make([]int, nnonter+1)
	pgo[0] = 0
	maxoff = 0
	maxspr = 0
	for i = 0; i < nstate; i++ {
		k = 32000
		j = 0
		v = optst[i]
		q = len(v)
		for p = 0; p < q; p += 2 {
			if v[p] > j {
				j = v[p]
			}
			if v[p] < k {
				k = v[p]
			}
		}

		// nontrivial situation
		if k <= j {
			// j is now the range
			//			j -= k;			// call scj
			if k > maxoff {
				maxoff = k
			}
		}
		tystate[i] = q + 2*j
		if j > maxspr {
			maxspr = j
		}
	}

	// initialize ggreed table
	ggreed = make([]int, nnonter+1)
	for i = 1; i <= nnonter; i++ {
		ggreed[i] = 1
		j = 0

		// minimum entry index is always 0
		v = yypgo[i]
		q = len(v) - 1
		for p = 0; p < q; p += 2 {
			ggreed[i] += 2
			if v[p] > j {
				j = v[p]
			}
		}
		ggreed[i] = ggreed[i] + 2*j
		if j > maxoff {
			maxoff = j
		}
	}

	// now, prepare to put the shift actions into the amem array
	for i = 0; i < ACTSIZE; i++ {
		amem[i] = 0
	}
	maxa = 0
	for i = 0; i < nstate; i++ {
		if tystate[i] == 0 && adb > 1 {
			fmt.Fprintf(ftable, "State %v: null\n", i)
		}
		indgo[i] = yyFlag
	}

	i = nxti()
	for i != NOMORE {
		if i >= 0 {
			stin(i)
		} else {
			gin(-i)
		}
		i = nxti()
	}

	// print amem array
	if adb > 2 {
		for p = 0; p <= maxa; p += 10 {
			fmt.Fprintf(ftable, "%v  ", p)
			for i = 0; i < 10; i++ {
				fmt.Fprintf(ftable, "%v  ", amem[p+i])
			}
			ftable.WriteRune('\n')
		}
	}

	aoutput()
	osummary()
}

// finds the next i
func nxti() int {
	max := 0
	maxi := 0
	for i := 1; i <= nnonter; i++ {
		if ggreed[i] >= max {
			max = ggreed[i]
			maxi = -i
		}
	}
	for i := 0; i < nstate; i++ {
		if tystate[i] >= max {
			max = tystate[i]
			maxi = i
		}
	}
	if max == 0 {
		return NOMORE
	}
	return maxi
}

func gin(i int) {
	var s int

	// enter gotos on nonterminal i into array amem
	ggreed[i] = 0

	q := yypgo[i]
	nq := len(q) - 1

	// now, find amem place for it
nextgp:
	for p := 0; p < ACTSIZE; p++ {
		if amem[p] != 0 {
			continue
		}
		for r := 0; r < nq; r += 2 {
			s = p + q[r] + 1
			if s > maxa {
				maxa = s
				if maxa >= ACTSIZE {
					errorf("a array overflow")
				}
			}
			if amem[s] != 0 {
				continue nextgp
			}
		}

		// we have found amem spot
		amem[p] = q[nq]
		if p > maxa {
			maxa = p
		}
		for r := 0; r < nq; r += 2 {
			s = p + q[r] + 1
			amem[s] = q[r+1]
		}
		pgo[i] = p
		if adb > 1 {
			fmt.Fprintf(ftable, "Nonterminal %v, entry at %v\n", i, pgo[i])
		}
		return
	}
	errorf("cannot place goto %v\n", i)
}

func stin(i int) {
	var s int

	tystate[i] = 0

	// enter state i into the amem array
	q := optst[i]
	nq := len(q)

nextn:
	// find an acceptable place
	for n := -maxoff; n < ACTSIZE; n++ {
		flag := 0
		for r := 0; r < nq; r += 2 {
			s = q[r] + n
			if s < 0 || s > ACTSIZE {
				continue nextn
			}
			if amem[s] == 0 {
				flag++
			} else if amem[s] != q[r+1] {
				continue nextn
			}
		}

		// check the position equals another only if the states are identical
		for j := 0; j < nstate; j++ {
			if indgo[j] == n {

				// we have some disagreement
				if flag != 0 {
					continue nextn
				}
				if nq == len(optst[j]) {

					// states are equal
					indgo[i] = n
					if adb > 1 {
						fmt.Fprintf(ftable, "State %v: entry at"+
							"%v equals state %v\n",
							i, n, j)
					}
					return
				}

				// we have some disagreement
				continue nextn
			}
		}

		for r := 0; r < nq; r += 2 {
			s = q[r] + n
			if s > maxa {
				maxa = s
			}
			if amem[s] != 0 && amem[s] != q[r+1] {
				errorf("clobber of a array, pos'n %v, by %v", s, q[r+1])
			}
			amem[s] = q[r+1]
		}
		indgo[i] = n
		if adb > 1 {
			fmt.Fprintf(ftable, "State %v: entry at %v\n", i, indgo[i])
		}
		return
	}
	errorf("Error; failure to place state %v", i)
}

// this version is for limbo
// write out the optimized parser
func aoutput() {
	ftable.WriteRune('\n')
	fmt.Fprintf(ftable, "const %sLast = %v\n", prefix, maxa+1)
	arout("Act", amem, maxa+1)
	arout("Pact", indgo, nstate)
	arout("Pgo", pgo, nnonter+1)
}

// put out other arrays, copy the parsers
func others() {
	var i, j int

	arout("R1", levprd, nprod)
	aryfil(temp1, nprod, 0)

	//
	//yyr2 is the number of rules for each production
	//
	for i = 1; i < nprod; i++ {
		temp1[i] = len(prdptr[i]) - 2
	}
	arout("R2", temp1, nprod)

	aryfil(temp1, nstate, -1000)
	for i = 0; i <= ntokens; i++ {
		for j := tstates[i]; j != 0; j = mstates[j] {
			temp1[j] = i
		}
	}
	for i = 0; i <= nnonter; i++ {
		for j = ntstates[i]; j != 0; j = mstates[j] {
			temp1[j] = -i
		}
	}
	arout("Chk", temp1, nstate)
	arrayOutColumns("Def", defact[:nstate], 10, false)

	// put out token translation tables
	// table 1 has 0-256
	aryfil(temp1, 256, 0)
	c := 0
	for i = 1; i <= ntokens; i++ {
		j = tokset[i].value
		if j >= 0 && j < 256 {
			if temp1[j] != 0 {
				fmt.Print("yacc bug -- cannot have 2 different Ts with same value\n")
				fmt.Printf("	%s and %s\n", tokset[i].name, tokset[temp1[j]].name)
				nerrors++
			}
			temp1[j] = i
			if j > c {
				c = j
			}
		}
	}
	for i = 0; i <= c; i++ {
		if temp1[i] == 0 {
			temp1[i] = YYLEXUNK
		}
	}
	arout("Tok1", temp1, c+1)

	// table 2 has PRIVATE-PRIVATE+256
	aryfil(temp1, 256, 0)
	c = 0
	for i = 1; i <= ntokens; i++ {
		j = tokset[i].value - PRIVATE
		if j >= 0 && j < 256 {
			if temp1[j] != 0 {
				fmt.Print("yacc bug -- cannot have 2 different Ts with same value\n")
				fmt.Printf("	%s and %s\n", tokset[i].name, tokset[temp1[j]].name)
				nerrors++
			}
			temp1[j] = i
			if j > c {
				c = j
			}
		}
	}
	arout("Tok2", temp1, c+1)

	// table 3 has everything else
	ftable.WriteRune('\n')
	var v []int
	for i = 1; i <= ntokens; i++ {
		j = tokset[i].value
		if j >= 0 && j < 256 {
			continue
		}
		if j >= PRIVATE && j < 256+PRIVATE {
			continue
		}

		v = append(v, j, i)
	}
	v = append(v, 0)
	arout("Tok3", v, len(v))
	fmt.Fprintf(ftable, "\n")

	// Custom error messages.
	fmt.Fprintf(ftable, "\n")
	fmt.Fprintf(ftable, "var %sErrorMessages = [...]struct {\n", prefix)
	fmt.Fprintf(ftable, "\tstate int\n")
	fmt.Fprintf(ftable, "\ttoken int\n")
	fmt.Fprintf(ftable, "\tmsg   string\n")
	fmt.Fprintf(ftable, "}{\n")
	for _, error := range errors {
		lineno = error.lineno
		state, token := runMachine(error.tokens)
		fmt.Fprintf(ftable, "\t{%v, %v, %s},\n", state, token, error.msg)
	}
	fmt.Fprintf(ftable, "}\n")

	// copy parser text
	ch := getrune(finput)
	for ch != EOF {
		ftable.WriteRune(ch)
		ch = getrune(finput)
	}

	// copy yaccpar
	if !lflag {
		fmt.Fprintf(ftable, "\n//line yaccpar:1\n")
	}

	parts := strings.SplitN(yaccpar, prefix+"run()", 2)
	fmt.Fprintf(ftable, "%v", parts[0])
	ftable.Write(fcode.Bytes())
	fmt.Fprintf(ftable, "%v", parts[1])
}

func runMachine(tokens []string) (state, token int) {
	var stack []int
	i := 0
	token = -1

Loop:
	if token < 0 {
		token = chfind(2, tokens[i])
		i++
	}

	row := stateTable[state]

	c := token
	if token >= NTBASE {
		c = token - NTBASE + ntokens
	}
	action := row.actions[c]
	if action == 0 {
		action = row.defaultAction
	}

	switch {
	case action == ACCEPTCODE:
		errorf("tokens are accepted")
		return
	case action == ERRCODE:
		if token >= NTBASE {
			errorf("error at non-terminal token %s", symnam(token))
		}
		return
	case action > 0:
		// Shift to state action.
		stack = append(stack, state)
		state = action
		token = -1
		goto Loop
	default:
		// Reduce by production -action.
		prod := prdptr[-action]
		if rhsLen := len(prod) - 2; rhsLen > 0 {
			n := len(stack) - rhsLen
			state = stack[n]
			stack = stack[:n]
		}
		if token >= 0 {
			i--
		}
		token = prod[0]
		goto Loop
	}
}

func minMax(v []int) (min, max int) {
	if len(v) == 0 {
		return
	}
	min = v[0]
	max = v[0]
	for _, i := range v {
		if i < min {
			min = i
		}
		if i > max {
			max = i
		}
	}
	return
}

// return the smaller integral base type to store the values in v
func minType(v []int, allowUnsigned bool) (typ string) {
	typ = "int"
	typeLen := 8
	min, max := minMax(v)
	checkType := func(name string, size, minType, maxType int) {
		if min >= minType && max <= maxType && typeLen > size {
			typ = name
			typeLen = size
		}
	}
	checkType("int32", 4, math.MinInt32, math.MaxInt32)
	checkType("int16", 2, math.MinInt16, math.MaxInt16)
	checkType("int8", 1, math.MinInt8, math.MaxInt8)
	if allowUnsigned {
		// Do not check for uint32, not worth and won't compile on 32 bit systems
		checkType("uint16", 2, 0, math.MaxUint16)
		checkType("uint8", 1, 0, math.MaxUint8)
	}
	return
}

func arrayOutColumns(s string, v []int, columns int, allowUnsigned bool) {
	s = prefix + s
	ftable.WriteRune('\n')
	minType := minType(v, allowUnsigned)
	fmt.Fprintf(ftable, "var %v = [...]%s{", s, minType)
	for i, val := range v {
		if i%columns == 0 {
			fmt.Fprintf(ftable, "\n\t")
		} else {
			ftable.WriteRune(' ')
		}
		fmt.Fprintf(ftable, "%d,", val)
	}
	fmt.Fprintf(ftable, "\n}\n")
}

func arout(s string, v []int, n int) {
	arrayOutColumns(s, v[:n], 10, true)
}

// output the summary on y.output
func summary() {
	if foutput != nil {
		fmt.Fprintf(foutput, "\n%v terminals, %v nonterminals\n", ntokens, nnonter+1)
		fmt.Fprintf(foutput, "%v grammar rules, %v/%v states\n", nprod, nstate, NSTATES)
		fmt.Fprintf(foutput, "%v shift/reduce, %v reduce/reduce conflicts reported\n", zzsrconf, zzrrconf)
		fmt.Fprintf(foutput, "%v working sets used\n", len(wsets))
		fmt.Fprintf(foutput, "memory: parser %v/%v\n", memp, ACTSIZE)
		fmt.Fprintf(foutput, "%v extra closures\n", zzclose-2*nstate)
		fmt.Fprintf(foutput, "%v shift entries, %v exceptions\n", zzacent, zzexcp)
		fmt.Fprintf(foutput, "%v goto entries\n", zzgoent)
		fmt.Fprintf(foutput, "%v entries saved by goto default\n", zzgobest)
	}
	if zzsrconf != 0 || zzrrconf != 0 {
		fmt.Printf("\nconflicts: ")
		if zzsrconf != 0 {
			fmt.Printf("%v shift/reduce", zzsrconf)
		}
		if zzsrconf != 0 && zzrrconf != 0 {
			fmt.Printf(", ")
		}
		if zzrrconf != 0 {
			fmt.Printf("%v reduce/reduce", zzrrconf)
		}
		fmt.Printf("\n")
	}
}

// write optimizer summary
func osummary() {
	if foutput == nil {
		return
	}
	i := 0
	for p := maxa; p >= 0; p-- {
		if amem[p] == 0 {
			i++
		}
	}

	fmt.Fprintf(foutput, "Optimizer space used: output %v/%v\n", maxa+1, ACTSIZE)
	fmt.Fprintf(foutput, "%v table entries, %v zero\n", maxa+1, i)
	fmt.Fprintf(foutput, "maximum spread: %v, maximum offset: %v\n", maxspr, maxoff)
}

// copies and protects "'s in q
func chcopy(q string) string {
	s := ""
	i := 0
	j := 0
	for i = 0; i < len(q); i++ {
		if q[i] == '"' {
			s += q[j:i] + "\\"
			j = i
		}
	}
	return s + q[j:i]
}

func usage() {
	fmt.Fprintf(stderr, "usage: yacc [-o output] [-v parsetable] input\n")
	exit(1)
}

func bitset(set Lkset, bit int) int { return set[bit>>5] & (1 << uint(bit&31)) }

func setbit(set Lkset, bit int) { set[bit>>5] |= (1 << uint(bit&31)) }

func mkset() Lkset { return make([]int, tbitset) }

// set a to the union of a and b
// return 1 if b is not a subset of a, 0 otherwise
func setunion(a, b []int) int {
	sub := 0
	for i := 0; i < tbitset; i++ {
		x := a[i]
		y := x | b[i]
		a[i] = y
		if y != x {
			sub = 1
		}
	}
	return sub
}

func prlook(p Lkset) {
	if p == nil {
		fmt.Fprintf(foutput, "\tNULL")
		return
	}
	fmt.Fprintf(foutput, " { ")
	for j := 0; j <= ntokens; j++ {
		if bitset(p, j) != 0 {
			fmt.Fprintf(foutput, "%v ", symnam(j))
		}
	}
	fmt.Fprintf(foutput, "}")
}

// utility routines
var peekrune rune

func isdigit(c rune) bool { return c >= '0' && c <= '9' }

func isword(c rune) bool {
	return c >= 0xa0 || c == '_' || (c >= 'a' && c <= 'z') || (c >= 'A' && c <= 'Z')
}

// return 1 if 2 arrays are equal
// return 0 if not equal
func aryeq(a []int, b []int) int {
	n := len(a)
	if len(b) != n {
		return 0
	}
	for ll := 0; ll < n; ll++ {
		if a[ll] != b[ll] {
			return 0
		}
	}
	return 1
}

func getrune(f *bufio.Reader) rune {
	var r rune

	if peekrune != 0 {
		if peekrune == EOF {
			return EOF
		}
		r = peekrune
		peekrune = 0
		return r
	}

	c, n, err := f.ReadRune()
	if n == 0 {
		return EOF
	}
	if err != nil {
		errorf("read error: %v", err)
	}
	//fmt.Printf("rune = %v n=%v\n", string(c), n);
	return c
}

func ungetrune(f *bufio.Reader, c rune) {
	if f != finput {
		panic("ungetc - not finput")
	}
	if peekrune != 0 {
		panic("ungetc - 2nd unget")
	}
	peekrune = c
}

func open(s string) *bufio.Reader {
	fi, err := os.Open(s)
	if err != nil {
		errorf("error opening %v: %v", s, err)
	}
	//fmt.Printf("open %v\n", s);
	return bufio.NewReader(fi)
}

func create(s string) *bufio.Writer {
	fo, err := os.Create(s)
	if err != nil {
		errorf("error creating %v: %v", s, err)
	}
	//fmt.Printf("create %v mode %v\n", s);
	return bufio.NewWriter(fo)
}

// write out error comment
func lerrorf(lineno int, s string, v ...interface{}) {
	nerrors++
	fmt.Fprintf(stderr, s, v...)
	fmt.Fprintf(stderr, ": %v:%v\n", infile, lineno)
	if fatfl != 0 {
		summary()
		exit(1)
	}
}

func errorf(s string, v ...interface{}) {
	lerrorf(lineno, s, v...)
}

func exit(status int) {
	if ftable != nil {
		ftable.Flush()
		ftable = nil
		gofmt()
	}
	if foutput != nil {
		foutput.Flush()
		foutput = nil
	}
	if stderr != nil {
		stderr.Flush()
		stderr = nil
	}
	os.Exit(status)
}

func gofmt() {
	src, err := os.ReadFile(oflag)
	if err != nil {
		return
	}
	src, err = format.Source(src)
	if err != nil {
		return
	}
	os.WriteFile(oflag, src, 0666)
}

var yaccpar string // will be processed version of yaccpartext: s/$$/prefix/g
var yaccpartext = `
/*	parser for yacc output	*/

var (
	$$Debug        = 0
	$$ErrorVerbose = false
)

type $$Lexer interface {
	Lex(lval *$$SymType) int
	Error(s string)
}

type $$Parser interface {
	Parse($$Lexer) int
	Lookahead() int
}

type $$ParserImpl struct {
	lval  $$SymType
	stack [$$InitialStackSize]$$SymType
	char  int
}

func (p *$$ParserImpl) Lookahead() int {
	return p.char
}

func $$NewParser() $$Parser {
	return &$$ParserImpl{}
}

const $$Flag = -1000

func $$Tokname(c int) string {
	if c >= 1 && c-1 < len($$Toknames) {
		if $$Toknames[c-1] != "" {
			return $$Toknames[c-1]
		}
	}
	return __yyfmt__.Sprintf("tok-%v", c)
}

func $$Statname(s int) string {
	if s >= 0 && s < len($$Statenames) {
		if $$Statenames[s] != "" {
			return $$Statenames[s]
		}
	}
	return __yyfmt__.Sprintf("state-%v", s)
}

func $$ErrorMessage(state, lookAhead int) string {
	const TOKSTART = 4

	if !$$ErrorVerbose {
		return "syntax error"
	}

	for _, e := range $$ErrorMessages {
		if e.state == state && e.token == lookAhead {
			return "syntax error: " + e.msg
		}
	}

	res := "syntax error: unexpected " + $$Tokname(lookAhead)

	// To match Bison, suggest at most four expected tokens.
	expected := make([]int, 0, 4)

	// Look for shiftable tokens.
	base := int($$Pact[state])
	for tok := TOKSTART; tok-1 < len($$Toknames); tok++ {
		if n := base + tok; n >= 0 && n < $$Last && int($$Chk[int($$Act[n])]) == tok {
			if len(expected) == cap(expected) {
				return res
			}
			expected = append(expected, tok)
		}
	}

	if $$Def[state] == -2 {
		i := 0
		for $$Exca[i] != -1 || int($$Exca[i+1]) != state {
			i += 2
		}

		// Look for tokens that we accept or reduce.
		for i += 2; $$Exca[i] >= 0; i += 2 {
			tok := int($$Exca[i])
			if tok < TOKSTART || $$Exca[i+1] == 0 {
				continue
			}
			if len(expected) == cap(expected) {
				return res
			}
			expected = append(expected, tok)
		}

		// If the default action is to accept or reduce, give up.
		if $$Exca[i+1] != 0 {
			return res
		}
	}

	for i, tok := range expected {
		if i == 0 {
			res += ", expecting "
		} else {
			res += " or "
		}
		res += $$Tokname(tok)
	}
	return res
}

func $$lex1(lex $$Lexer, lval *$$SymType) (char, token int) {
	token = 0
	char = lex.Lex(lval)
	if char <= 0 {
		token = int($$Tok1[0])
		goto out
	}
	if char < len($$Tok1) {
		token = int($$Tok1[char])
		goto out
	}
	if char >= $$Private {
		if char < $$Private+len($$Tok2) {
			token = int($$Tok2[char-$$Private])
			goto out
		}
	}
	for i := 0; i < len($$Tok3); i += 2 {
		token = int($$Tok3[i+0])
		if token == char {
			token = int($$Tok3[i+1])
			goto out
		}
	}

out:
	if token == 0 {
		token = int($$Tok2[1]) /* unknown char */
	}
	if $$Debug >= 3 {
		__yyfmt__.Printf("lex %s(%d)\n", $$Tokname(token), uint(char))
	}
	return char, token
}

func $$Parse($$lex $$Lexer) int {
	return $$NewParser().Parse($$lex)
}

func ($$rcvr *$$ParserImpl) Parse($$lex $$Lexer) int {
	var $$n int
	var $$VAL $$SymType
	var $$Dollar []$$SymType
	_ = $$Dollar // silence set and not used
	$$S := $$rcvr.stack[:]

	Nerrs := 0   /* number of errors */
	Errflag := 0 /* error recovery flag */
	$$state := 0
	$$rcvr.char = -1
	$$token := -1 // $$rcvr.char translated into internal numbering
	defer func() {
		// Make sure we report no lookahead when not parsing.
		$$state = -1
		$$rcvr.char = -1
		$$token = -1
	}()
	$$p := -1
	goto $$stack

ret0:
	return 0

ret1:
	return 1

$$stack:
	/* put a state and value onto the stack */
	if $$Debug >= 4 {
		__yyfmt__.Printf("char %v in %v\n", $$Tokname($$token), $$Statname($$state))
	}

	$$p++
	if $$p >= len($$S) {
		nyys := make([]$$SymType, len($$S)*2)
		copy(nyys, $$S)
		$$S = nyys
	}
	$$S[$$p] = $$VAL
	$$S[$$p].yys = $$state

$$newstate:
	$$n = int($$Pact[$$state])
	if $$n <= $$Flag {
		goto $$default /* simple state */
	}
	if $$rcvr.char < 0 {
		$$rcvr.char, $$token = $$lex1($$lex, &$$rcvr.lval)
	}
	$$n += $$token
	if $$n < 0 || $$n >= $$Last {
		goto $$default
	}
	$$n = int($$Act[$$n])
	if int($$Chk[$$n]) == $$token { /* valid shift */
		$$rcvr.char = -1
		$$token = -1
		$$VAL = $$rcvr.lval
		$$state = $$n
		if Errflag > 0 {
			Errflag--
		}
		goto $$stack
	}

$$default:
	/* default state action */
	$$n = int($$Def[$$state])
	if $$n == -2 {
		if $$rcvr.char < 0 {
			$$rcvr.char, $$token = $$lex1($$lex, &$$rcvr.lval)
		}

		/* look through exception table */
		xi := 0
		for {
			if $$Exca[xi+0] == -1 && int($$Exca[xi+1]) == $$state {
				break
			}
			xi += 2
		}
		for xi += 2; ; xi += 2 {
			$$n = int($$Exca[xi+0])
			if $$n < 0 || $$n == $$token {
				break
			}
		}
		$$n = int($$Exca[xi+1])
		if $$n < 0 {
			goto ret0
		}
	}
	if $$n == 0 {
		/* error ... attempt to resume parsing */
		switch Errflag {
		case 0: /* brand new error */
			$$lex.Error($$ErrorMessage($$state, $$token))
			Nerrs++
			if $$Debug >= 1 {
				__yyfmt__.Printf("%s", $$Statname($$state))
				__yyfmt__.Printf(" saw %s\n", $$Tokname($$token))
			}
			fallthrough

		case 1, 2: /* incompletely recovered error ... try again */
			Errflag = 3

			/* find a state where "error" is a legal shift action */
			for $$p >= 0 {
				$$n = int($$Pact[$$S[$$p].yys]) + $$ErrCode
				if $$n >= 0 && $$n < $$Last {
					$$state = int($$Act[$$n]) /* simulate a shift of "error" */
					if int($$Chk[$$state]) == $$ErrCode {
						goto $$stack
					}
				}

				/* the current p has no shift on "error", pop stack */
				if $$Debug >= 2 {
					__yyfmt__.Printf("error recovery pops state %d\n", $$S[$$p].yys)
				}
				$$p--
			}
			/* there is no state on the stack with an error shift ... abort */
			goto ret1

		case 3: /* no shift yet; clobber input char */
			if $$Debug >= 2 {
				__yyfmt__.Printf("error recovery discards %s\n", $$Tokname($$token))
			}
			if $$token == $$EofCode {
				goto ret1
			}
			$$rcvr.char = -1
			$$token = -1
			goto $$newstate /* try again in the same state */
		}
	}

	/* reduction by production $$n */
	if $$Debug >= 2 {
		__yyfmt__.Printf("reduce %v in:\n\t%v\n", $$n, $$Statname($$state))
	}

	$$nt := $$n
	$$pt := $$p
	_ = $$pt // guard against "declared and not used"

	$$p -= int($$R2[$$n])
	// $$p is now the index of $0. Perform the default action. Iff the
	// reduced production is ε, $1 is possibly out of range.
	if $$p+1 >= len($$S) {
		nyys := make([]$$SymType, len($$S)*2)
		copy(nyys, $$S)
		$$S = nyys
	}
	$$VAL = $$S[$$p+1]

	/* consult goto table to find next state */
	$$n = int($$R1[$$n])
	$$g := int($$Pgo[$$n])
	$$j := $$g + $$S[$$p].yys + 1

	if $$j >= $$Last {
		$$state = int($$Act[$$g])
	} else {
		$$state = int($$Act[$$j])
		if int($$Chk[$$state]) != -$$n {
			$$state = int($$Act[$$g])
		}
	}
	// dummy call; replaced with literal code
	$$run()
	goto $$stack /* stack new state and value */
}
`
