module goyacc

go 1.21
