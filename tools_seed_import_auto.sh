#!/bin/sh
# usage: tools_seed_import_auto.sh <dir-with-m1..mN>   -- numbers each mutant after the existing ones of its
# property (meta.json "property") and imports it with tools_seed_import.sh
SRC=$1
cd /verif || exit 2
for d in $SRC/m*; do
  [ -f $d/meta.json ] || continue
  prop=$(python3 -c "import json,re;print(re.findall(r'C\d\d',json.load(open('$d/meta.json'))['property'])[0])")
  n=$(ls seeded | grep "^$prop-m" | sed 's/.*-m//' | sort -n | tail -1); n=$((${n:-0}+1))
  rm -rf /tmp/seedauto; mkdir -p /tmp/seedauto/$prop/m$n; cp -r $d/* /tmp/seedauto/$prop/m$n/
  python3 - <<PY
import json
p='/tmp/seedauto/$prop/m$n/meta.json'; m=json.load(open(p)); m['property']='$prop'; m['origin']='$d'; json.dump(m,open(p,'w'),indent=1)
PY
  echo "$d -> $prop-m$n: $(SEED_SRC=/tmp/seedauto sh /verif/tools_seed_import.sh $prop $n 2>&1 | tail -1)"
done
rm -rf /tmp/seedauto
