# generates the SMT-LIB spec functions for varints (fileformat2.html section 1.6 "varint")
B="(Array (_ BitVec 64) (_ BitVec 8))"
W="(_ BitVec 64)"
def lit(n): return "#x%016x"%n
out=[]
out.append("(define-fun byte_at ((a %s) (o %s) (i %s)) (_ BitVec 8) (select a (bvadd o i)))"%(B,W,W))
out.append("(define-fun hibit ((a %s) (o %s) (i %s)) Bool (bvuge (byte_at a o i) #x80))"%(B,W,W))
# varint_len: number of bytes of the varint starting at o when n bytes are available, or -1
e="(ite (bvsle n %s) %s %s)"%(lit(8),lit(2**64-1),lit(9))
for k in range(7,-1,-1):
    e="(ite (bvsle n %s) %s (ite (not (hibit a o %s)) %s %s))"%(lit(k),lit(2**64-1),lit(k),lit(k+1),e)
out.append("(define-fun varint_len ((a %s) (o %s) (n %s)) %s %s)"%(B,W,W,W,e))
# acc_k: value of the low 7 bits of the first k bytes, big endian
def acc(k):
    if k==0: return lit(0)
    return "(bvor (bvshl %s %s) ((_ zero_extend 56) (bvand (byte_at a o %s) #x7f)))"%(acc(k-1),lit(7),lit(k-1))
e="(bvor (bvshl %s %s) ((_ zero_extend 56) (byte_at a o %s)))"%(acc(8),lit(8),lit(8))
for k in range(8,0,-1):
    e="(ite (= l %s) %s %s)"%(lit(k),acc(k),e)
out.append("(define-fun varint_val ((a %s) (o %s) (l %s)) %s %s)"%(B,W,W,W,e))
e=acc(8)
for k in range(7,-1,-1):
    e="(ite (= i %s) %s %s)"%(lit(k),acc(k),e)
out.append("(define-fun varint_acc ((a %s) (o %s) (i %s)) %s %s)"%(B,W,W,W,e))
conj=[]
for k in range(8):
    conj.append("(=> (bvsgt i %s) (hibit a o %s))"%(lit(k),lit(k)))
out.append("(define-fun varint_cont ((a %s) (o %s) (i %s)) Bool (and %s))"%(B,W,W," ".join(conj)))
out.append("(define-fun twos24 ((a %s) (o %s)) %s ((_ sign_extend 40) (concat (byte_at a o %s) (byte_at a o %s) (byte_at a o %s))))"%(B,W,W,lit(0),lit(1),lit(2)))
out.append("(define-fun twos48 ((a %s) (o %s)) %s ((_ sign_extend 16) (concat (byte_at a o %s) (byte_at a o %s) (byte_at a o %s) (byte_at a o %s) (byte_at a o %s) (byte_at a o %s))))"%(B,W,W,lit(0),lit(1),lit(2),lit(3),lit(4),lit(5)))
out.append("(define-fun be16 ((a %s) (o %s)) (_ BitVec 16) (concat (byte_at a o %s) (byte_at a o %s)))"%(B,W,lit(0),lit(1)))
out.append("(define-fun be32 ((a %s) (o %s)) (_ BitVec 32) (concat (byte_at a o %s) (byte_at a o %s) (byte_at a o %s) (byte_at a o %s)))"%(B,W,lit(0),lit(1),lit(2),lit(3)))
out.append("(define-fun be64 ((a %s) (o %s)) (_ BitVec 64) (concat %s))"%(B,W," ".join("(byte_at a o %s)"%lit(i) for i in range(8))))
for l in out: print("//@ "+l)
