#!/usr/bin/env python3
# Generates the `smt utf8` block: UTF-8 decoding of the first rune of (array a, offset o, n bytes),
# as unicode/utf8.DecodeRuneInString and the range-over-string loop do it.
B8="(_ BitVec 8)"; B64="(_ BitVec 64)"; B32="(_ BitVec 32)"; ARR="(Array (_ BitVec 64) (_ BitVec 8))"
def c64(n): return "#x%016x"%n
def at(k): return "(select a (bvadd o %s))"%c64(k) if k else "(select a o)"
def z32(e): return "((_ zero_extend 24) %s)"%e
lines=[]
lines.append(f"(define-fun utf8_sz ((b {B8})) {B64} (ite (bvult b #x80) {c64(1)} (ite (bvult b #xc2) {c64(0)} (ite (bvult b #xe0) {c64(2)} (ite (bvult b #xf0) {c64(3)} (ite (bvult b #xf5) {c64(4)} {c64(0)}))))))")
lines.append(f"(define-fun utf8_cont ((b {B8})) Bool (and (bvuge b #x80) (bvule b #xbf)))")
lines.append(f"(define-fun utf8_lo ((b {B8})) {B8} (ite (= b #xe0) #xa0 (ite (= b #xf0) #x90 #x80)))")
lines.append(f"(define-fun utf8_hi ((b {B8})) {B8} (ite (= b #xed) #x9f (ite (= b #xf4) #x8f #xbf)))")
lines.append(f"(define-fun utf8_valid ((a {ARR}) (o {B64}) (n {B64})) Bool (and (bvuge (utf8_sz {at(0)}) {c64(2)}) (bvsge n (utf8_sz {at(0)})) (bvuge {at(1)} (utf8_lo {at(0)})) (bvule {at(1)} (utf8_hi {at(0)})) (=> (bvuge (utf8_sz {at(0)}) {c64(3)}) (utf8_cont {at(2)})) (=> (bvuge (utf8_sz {at(0)}) {c64(4)}) (utf8_cont {at(3)}))))")
lines.append(f"(define-fun utf8_w ((a {ARR}) (o {B64}) (n {B64})) {B64} (ite (bvsle n {c64(0)}) {c64(0)} (ite (utf8_valid a o n) (utf8_sz {at(0)}) {c64(1)})))")
def cb(k): return f"(bvand {z32(at(k))} #x0000003f)"
r2=f"(bvor (bvshl (bvand {z32(at(0))} #x0000001f) #x00000006) {cb(1)})"
r3=f"(bvor (bvshl (bvand {z32(at(0))} #x0000000f) #x0000000c) (bvor (bvshl {cb(1)} #x00000006) {cb(2)}))"
r4=f"(bvor (bvshl (bvand {z32(at(0))} #x00000007) #x00000012) (bvor (bvshl {cb(1)} #x0000000c) (bvor (bvshl {cb(2)} #x00000006) {cb(3)})))"
lines.append(f"(define-fun utf8_r ((a {ARR}) (o {B64}) (n {B64})) {B32} (ite (bvsle n {c64(0)}) #x0000fffd (ite (bvult {at(0)} #x80) {z32(at(0))} (ite (not (utf8_valid a o n)) #x0000fffd (ite (= (utf8_sz {at(0)}) {c64(2)}) {r2} (ite (= (utf8_sz {at(0)}) {c64(3)}) {r3} {r4}))))))")
if __name__=="__main__":
    print("//@ smt utf8")
    for l in lines: print("//@ "+l)
