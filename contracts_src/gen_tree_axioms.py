# Generates the table/index tree axioms in "absolute index" form: patterns contain no arithmetic.
W="(_ BitVec 64)"
Z="#x0000000000000000"; ONE="#x0000000000000001"
def rel(F,a): return "(bvsub %s (s_off (%s X)))"%(a,F)
def inrange(F,a): return "(and (bvule (s_off (%s X)) %s) (bvult %s (bvadd (s_off (%s X)) (s_len (%s X)))))"%(F,a,a,F,F)
out=[]
def A(s): out.append("//@ (assert %s)"%s)
# ---- table tree
TL="F_db_tableLeaf_cells"; TLE="FE_db_tableLeaf_cells"
TI="F_db_tableInterior_cells"; TIE="FE_db_tableInterior_cells"; TIR="F_db_tableInterior_rightmost"
def table_tree():
    A("(forall ((X Int)) (! (= (p_hi (pg X)) (bvadd (p_lo (pg X)) (s_len (%s X)))) :pattern ((%s X))))"%(TL,TL))
    cell="(select (%s X) a)"%TLE
    A("(forall ((X Int) (a %s)) (! (=> %s (and (= (tb_rowid (tree_of (pg X)) (bvadd (p_lo (pg X)) %s)) (S_db_tableLeafCell_0_left %s)) (= (tb_payload (tree_of (pg X)) (bvadd (p_lo (pg X)) %s)) (S_db_tableLeafCell_1_payload %s)))) :pattern (%s)))"%(W,inrange(TL,"a"),rel(TL,"a"),cell,rel(TL,"a"),cell,cell))
    A("(forall ((X Int)) (! (= (c_lo X %s) (p_lo (pg X))) :pattern ((%s X))))"%(Z,TI))
    cell="(select (%s X) a)"%TIE
    child="(S_db_tableInteriorCell_0_left %s)"%cell
    A("(forall ((X Int) (a %s)) (! (=> %s (and (= (p_lo %s) (c_lo X %s)) (= (c_lo X (bvadd %s %s)) (p_hi %s)) (= (tree_of %s) (tree_of (pg X))))) :pattern (%s)))"%(W,inrange(TI,"a"),child,rel(TI,"a"),rel(TI,"a"),ONE,child,child,cell))
    A("(forall ((X Int)) (! (and (= (p_lo (%s X)) (c_lo X (s_len (%s X)))) (= (p_hi (%s X)) (p_hi (pg X))) (= (tree_of (%s X)) (tree_of (pg X)))) :pattern ((%s X))))"%(TIR,TI,TIR,TIR,TIR))
def table_sorted():
    A("(forall ((p %s)) (! (= (tree_of (tree_of p)) (tree_of p)) :pattern ((tree_of p))))"%W)
    A("(forall ((p %s)) (! (and (bvule (p_lo (tree_of p)) (p_lo p)) (bvule (p_lo p) (p_hi p)) (bvule (p_hi p) (p_hi (tree_of p))) (bvule (p_hi (tree_of p)) #x0000ffffffffffff)) :pattern ((p_lo p)) :pattern ((p_hi p))))"%W)
    A("(forall ((t %s) (k %s)) (! (and (bvule (p_lo t) (tfirst t k)) (bvule (tfirst t k) (p_hi t))) :pattern ((tfirst t k))))"%(W,W))
    A("(forall ((t %s) (k %s) (j %s)) (! (=> (and (bvule (p_lo t) j) (bvult j (p_hi t))) (= (bvult j (tfirst t k)) (bvslt (tb_rowid t j) k))) :pattern ((tfirst t k) (tb_rowid t j))))"%(W,W,W))
    cell="(select (%s X) a)"%TIE
    key="(S_db_tableInteriorCell_1_key %s)"%cell
    A("(forall ((X Int) (a %s) (j %s)) (! (=> (and %s (bvule (p_lo (pg X)) j) (bvult j (p_hi (pg X)))) (ite (bvult j (c_lo X (bvadd %s %s))) (bvsle (tb_rowid (tree_of (pg X)) j) %s) (bvsgt (tb_rowid (tree_of (pg X)) j) %s))) :pattern (%s (tb_rowid (tree_of (pg X)) j))))"%(W,W,inrange(TI,"a"),rel(TI,"a"),ONE,key,key,cell))
    # children lie inside their parent (nesting of positions)
    A("(forall ((X Int) (a %s)) (! (=> %s (and (bvule (p_lo (pg X)) (c_lo X %s)) (bvule (c_lo X %s) (c_lo X (bvadd %s %s))) (bvule (c_lo X (bvadd %s %s)) (p_hi (pg X))))) :pattern (%s)))"%(W,inrange(TI,"a"),rel(TI,"a"),rel(TI,"a"),rel(TI,"a"),ONE,rel(TI,"a"),ONE,cell))
    # separator keys stated against the search boundary (consequence of the two axioms above)
    A("(forall ((X Int) (a %s) (k %s)) (! (=> %s (and (=> (and (bvslt %s k) (bvuge (tfirst (tree_of (pg X)) k) (p_lo (pg X)))) (bvuge (tfirst (tree_of (pg X)) k) (c_lo X (bvadd %s %s)))) (=> (and (bvsge %s k) (bvule (tfirst (tree_of (pg X)) k) (p_hi (pg X)))) (bvule (tfirst (tree_of (pg X)) k) (c_lo X (bvadd %s %s)))))) :pattern (%s (tfirst (tree_of (pg X)) k))))"%(W,W,inrange(TI,"a"),key,rel(TI,"a"),ONE,key,rel(TI,"a"),ONE,cell))
    A("(forall ((t %s) (k %s)) (! (and (=> (bvult (tfirst t k) (p_hi t)) (bvsge (tb_rowid t (tfirst t k)) k)) (=> (bvugt (tfirst t k) (p_lo t)) (bvslt (tb_rowid t (bvsub (tfirst t k) %s)) k))) :pattern ((tfirst t k))))"%(W,W,ONE))
IL="F_db_indexLeaf_cells"; ILE="FE_db_indexLeaf_cells"
II="F_db_indexInterior_cells"; IIE="FE_db_indexInterior_cells"; IIR="F_db_indexInterior_rightmost"
def index_tree():
    A("(forall ((X Int)) (! (= (p_hi (pg X)) (bvadd (p_lo (pg X)) (s_len (%s X)))) :pattern ((%s X))))"%(IL,IL))
    cell="(select (%s X) a)"%ILE
    A("(forall ((X Int) (a %s)) (! (=> %s (= (ix_payload (tree_of (pg X)) (bvadd (p_lo (pg X)) %s)) %s)) :pattern (%s)))"%(W,inrange(IL,"a"),rel(IL,"a"),cell,cell))
    A("(forall ((X Int)) (! (= (c_lo X %s) (p_lo (pg X))) :pattern ((%s X))))"%(Z,II))
    cell="(select (%s X) a)"%IIE
    child="(S_db_indexInteriorCell_0_left %s)"%cell
    # child i occupies [c_lo(i), p_hi(child)); the interior entry i is the item at p_hi(child); next child starts after it
    A("(forall ((X Int) (a %s)) (! (=> %s (and (= (p_lo %s) (c_lo X %s)) (= (ix_payload (tree_of (pg X)) (p_hi %s)) (S_db_indexInteriorCell_1_payload %s)) (= (c_lo X (bvadd %s %s)) (bvadd (p_hi %s) %s)) (= (tree_of %s) (tree_of (pg X))))) :pattern (%s)))"%(W,inrange(II,"a"),child,rel(II,"a"),child,cell,rel(II,"a"),ONE,child,ONE,child,cell))
    A("(forall ((X Int)) (! (and (= (p_lo (%s X)) (c_lo X (s_len (%s X)))) (= (p_hi (%s X)) (p_hi (pg X))) (= (tree_of (%s X)) (tree_of (pg X)))) :pattern ((%s X))))"%(IIR,II,IIR,IIR,IIR))
def index_sorted():
    A("(forall ((p %s)) (! (= (tree_of (tree_of p)) (tree_of p)) :pattern ((tree_of p))))"%W)
    A("(forall ((p %s)) (! (and (bvule (p_lo (tree_of p)) (p_lo p)) (bvule (p_lo p) (p_hi p)) (bvule (p_hi p) (p_hi (tree_of p))) (bvule (p_hi (tree_of p)) #x0000ffffffffffff)) :pattern ((p_lo p)) :pattern ((p_hi p))))"%W)
    A("(forall ((t %s) (k Slice)) (! (and (bvule (p_lo t) (ifirst t k)) (bvule (ifirst t k) (p_hi t))) :pattern ((ifirst t k))))"%W)
    A("(forall ((t %s) (k Slice) (j %s)) (! (=> (and (bvule (p_lo t) j) (bvult j (p_hi t))) (= (bvult j (ifirst t k)) (not (srch k (ix_payload t j))))) :pattern ((ifirst t k) (ix_payload t j))))"%(W,W))
    cell="(select (%s X) a)"%IIE
    child="(S_db_indexInteriorCell_0_left %s)"%cell
    A("(forall ((X Int) (a %s)) (! (=> %s (and (bvule (p_lo (pg X)) (c_lo X %s)) (bvule (c_lo X %s) (p_hi %s)) (bvult (p_hi %s) (c_lo X (bvadd %s %s))) (bvule (c_lo X (bvadd %s %s)) (p_hi (pg X))))) :pattern (%s)))"%(W,inrange(II,"a"),rel(II,"a"),rel(II,"a"),child,child,rel(II,"a"),ONE,rel(II,"a"),ONE,cell))
import sys
which=sys.argv[1]
globals()[which]()
print("\n".join(out))
