module u8
go 1.21
