package main

import (
	"bufio"
	"fmt"
	"os"
	"unicode/utf8"
)

func main() {
	w := bufio.NewWriter(os.Stdout)
	defer w.Flush()
	b1s := []byte{0x00, 0x7f, 0x80, 0x8f, 0x90, 0x9f, 0xa0, 0xbf, 0xc0, 0xff}
	b2s := []byte{0x7f, 0x80, 0xbf, 0xc0}
	for b0 := 0; b0 < 256; b0++ {
		for _, b1 := range b1s {
			for _, b2 := range b2s {
				for _, b3 := range b2s {
					buf := []byte{byte(b0), b1, b2, b3}
					for n := 0; n <= 4; n++ {
						r, wd := utf8.DecodeRuneInString(string(buf[:n]))
						// range loop agrees with DecodeRuneInString
						if n > 0 {
							for _, rr := range string(buf[:n]) {
								if rr != r {
									panic("range differs")
								}
								break
							}
						}
						arr := fmt.Sprintf("(store (store (store (store K #x0000000000000005 #x%02x) #x0000000000000006 #x%02x) #x0000000000000007 #x%02x) #x0000000000000008 #x%02x)", b0, b1, b2, b3)
						fmt.Fprintf(w, "(assert (and (= (utf8_r %s #x0000000000000005 #x%016x) #x%08x) (= (utf8_w %s #x0000000000000005 #x%016x) #x%016x)))\n", arr, n, uint32(r), arr, n, wd)
					}
				}
			}
		}
	}
}
