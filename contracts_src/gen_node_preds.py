B="(Array (_ BitVec 64) (_ BitVec 8))"; W="(_ BitVec 64)"
def lit(n): return "#x%016x"%n
o=[]
# payload predicates relative to cell bytes (a, reg, o, n) and page size u, X
def pl_ok(pl,start,X):
    # pl: cellPayload term; start: offset (BV64 term) where the payload bytes start (absolute in a); X: threshold term
    L="(S_db_cellPayload_0_Length %s)"%pl; P="(S_db_cellPayload_1_Payload %s)"%pl; O="(S_db_cellPayload_2_Overflow %s)"%pl
    return "(and (= (s_reg %s) reg) (= (s_off %s) %s) (=> (bvsle %s %s) (= %s %s)) (=> (bvsgt %s %s) (and (= (s_len %s) (local_size %s u %s)) (= %s (zx32 (be32 a (bvadd %s (local_size %s u %s))))))) (wf_payload %s))"%(P,P,start,L,X,O,lit(0),L,X,P,L,X,O,start,L,X,pl)
c="c"
o.append("(define-fun tl_cell_ok ((c S_db_tableLeafCell) (a %s) (reg Int) (o %s) (n %s) (u %s)) Bool (and (= (S_db_tableLeafCell_0_left c) (tl_rowid a o n)) (= (S_db_cellPayload_0_Length (S_db_tableLeafCell_1_payload c)) (tl_plen a o n)) %s))"%(B,W,W,W,pl_ok("(S_db_tableLeafCell_1_payload c)","(bvadd o (tl_hdr a o n))","(x_table u)")))
o.append("(define-fun ti_cell_ok ((c S_db_tableInteriorCell) (a %s) (o %s) (n %s)) Bool (and (= (S_db_tableInteriorCell_0_left c) (zx32 (be32 a o))) (= (S_db_tableInteriorCell_1_key c) (ti_key a o n))))"%(B,W,W))
o.append("(define-fun il_cell_ok ((c S_db_cellPayload) (a %s) (reg Int) (o %s) (n %s) (u %s)) Bool (and (= (S_db_cellPayload_0_Length c) (il_plen a o n)) %s))"%(B,W,W,W,pl_ok("c","(bvadd o (il_n1 a o n))","(x_index u)")))
o.append("(define-fun ii_cell_ok ((c S_db_indexInteriorCell) (a %s) (reg Int) (o %s) (n %s) (u %s)) Bool (and (= (S_db_indexInteriorCell_0_left c) (zx32 (be32 a o))) (il_cell_ok (S_db_indexInteriorCell_1_payload c) a reg (bvadd o %s) (bvsub n %s) u)))"%(B,W,W,W,lit(4),lit(4)))
o.append("(define-fun cellptr ((a %s) (o %s) (i %s)) %s (zx16 (be16 a (bvadd o (bvmul %s i)))))"%(B,W,W,W,lit(2)))
import re,sys
mode=sys.argv[1]
for l in o:
    m=re.match(r'\(define-fun (\w+) \((.*?)\) Bool (.*)\)$',l)
    name=l.split()[1]
    if name=='cellptr':
        if mode=='decl': print("//@ "+l)
        continue
    # parse params
    hdr=l[len('(define-fun '+name+' '):]
    # find matching paren of param list
    depth=0
    for i,ch in enumerate(hdr):
        if ch=='(':depth+=1
        elif ch==')':
            depth-=1
            if depth==0: end=i;break
    params=hdr[1:end]
    body=hdr[end+1:].strip()
    assert body.startswith('Bool ')
    body=body[5:-1]
    # param names and sorts
    ps=[];d=0;cur=''
    for ch in params:
        if ch=='(':
            d+=1
            if d==1: cur='';continue
        if ch==')':
            d-=1
            if d==0: ps.append(cur);continue
        cur+=ch
    names=[p.split(' ',1)[0] for p in ps]; sorts=[p.split(' ',1)[1] for p in ps]
    if mode=='decl':
        print("//@ (declare-fun %s (%s) Bool)"%(name," ".join(sorts)))
    else:
        print("//@ (assert (forall (%s) (! (= (%s %s) %s) :pattern ((%s %s)))))"%(" ".join("(%s %s)"%(n,s) for n,s in zip(names,sorts)),name," ".join(names),body,name," ".join(names)))

