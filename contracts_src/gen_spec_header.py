B="(Array (_ BitVec 64) (_ BitVec 8))"; W="(_ BitVec 64)"
def lit(n): return "#x%016x"%n
magic=b"SQLite format 3\x00"
c=["(bvsge n %s)"%lit(100)]
for i,ch in enumerate(magic): c.append("(= (byte_at a o %s) #x%02x)"%(lit(i),ch))
ps="(be16 a (bvadd o %s))"%lit(16)
c.append("(or (= %s #x0001) %s)"%(ps," ".join("(= %s #x%04x)"%(ps,2**k) for k in range(9,16))))
c.append("(= (byte_at a o %s) #x01)"%lit(19))  # read version 1 (rollback journal); 2 = WAL
c.append("(= (byte_at a o %s) #x00)"%lit(20))  # reserved space
c.append("(= (byte_at a o %s) #x40)"%lit(21)); c.append("(= (byte_at a o %s) #x20)"%lit(22)); c.append("(= (byte_at a o %s) #x20)"%lit(23))
sf="(be32 a (bvadd o %s))"%lit(44)
c.append("(or (= %s #x00000002) (= %s #x00000003) (= %s #x00000004))"%(sf,sf,sf))
c.append("(= (be32 a (bvadd o %s)) #x00000001)"%lit(56))
for i in range(72,92): c.append("(= (byte_at a o %s) #x00)"%lit(i))
print("//@ (define-fun hdr_ok ((a %s) (o %s) (n %s)) Bool (and %s))"%(B,W,W," ".join(c)))
print("//@ (define-fun hdr_pagesize ((a %s) (o %s)) %s (ite (= %s #x0001) %s ((_ zero_extend 48) %s)))"%(B,W,W,ps,lit(65536),ps))
