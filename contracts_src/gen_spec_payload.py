W="(_ BitVec 64)"
B="(Array (_ BitVec 64) (_ BitVec 8))"
def lit(n): return "#x%016x"%(n%(2**64))
o=[]
o.append("(define-fun legal_ps ((u %s)) Bool (or %s))"%(W," ".join("(= u %s)"%lit(2**k) for k in range(9,17))))
o.append("(define-fun x_table ((u %s)) %s (bvsub u %s))"%(W,W,lit(35)))
o.append("(define-fun x_index ((u %s)) %s (bvsub (bvsdiv (bvmul (bvsub u %s) %s) %s) %s))"%(W,W,lit(12),lit(64),lit(255),lit(23)))
o.append("(define-fun ls_m ((u %s)) %s (bvsub (bvsdiv (bvmul (bvsub u %s) %s) %s) %s))"%(W,W,lit(12),lit(32),lit(255),lit(23)))
o.append("(define-fun ls_k ((p %s) (u %s)) %s (bvadd (ls_m u) (bvsrem (bvsub p (ls_m u)) (bvsub u %s))))"%(W,W,W,lit(4)))
o.append("(define-fun local_size ((p %s) (u %s) (x %s)) %s (ite (bvsle p x) p (ite (bvsle (ls_k p u) x) (ls_k p u) (ls_m u))))"%(W,W,W,W))
# cell layouts (fileformat2.html 1.6 "B-tree Cell Format")
o.append("(define-fun tl_n1 ((a %s) (o %s) (n %s)) %s (varint_len a o n))"%(B,W,W,W))
o.append("(define-fun tl_plen ((a %s) (o %s) (n %s)) %s (varint_val a o (tl_n1 a o n)))"%(B,W,W,W))
o.append("(define-fun tl_n2 ((a %s) (o %s) (n %s)) %s (varint_len a (bvadd o (tl_n1 a o n)) (bvsub n (tl_n1 a o n))))"%(B,W,W,W))
o.append("(define-fun tl_rowid ((a %s) (o %s) (n %s)) %s (varint_val a (bvadd o (tl_n1 a o n)) (tl_n2 a o n)))"%(B,W,W,W))
o.append("(define-fun tl_hdr ((a %s) (o %s) (n %s)) %s (bvadd (tl_n1 a o n) (tl_n2 a o n)))"%(B,W,W,W))
o.append("(define-fun zx32 ((x (_ BitVec 32))) %s ((_ zero_extend 32) x))"%W)
o.append("(define-fun zx16 ((x (_ BitVec 16))) %s ((_ zero_extend 48) x))"%W)
for l in o: print("//@ "+l)
