W="(_ BitVec 64)"
B="(Array (_ BitVec 64) (_ BitVec 8))"
def lit(n): return "#x%016x"%(n%(2**64))
o=[]
o.append("(define-fun serial_ok ((t %s)) Bool (and (bvsge t %s) (not (= t %s)) (not (= t %s))))"%(W,lit(0),lit(10),lit(11)))
sizes={0:0,1:1,2:2,3:3,4:4,5:6,6:8,7:8,8:0,9:0}
e="(bvlshr (bvsub t (ite (= ((_ extract 0 0) t) #b0) %s %s)) %s)"%(lit(12),lit(13),lit(1))
for k in range(9,-1,-1):
    e="(ite (= t %s) %s %s)"%(lit(k),lit(sizes[k]),e)
o.append("(define-fun serial_size ((t %s)) %s %s)"%(W,W,e))
# value: a = bytes of the record's region, b = remaining body slice
def by(i): return "(select a (bvadd (s_off b) %s))"%lit(i)
vals={
 0:"if_nil",
 1:"(if_int64 ((_ sign_extend 56) %s))"%by(0),
 2:"(if_int64 ((_ sign_extend 48) (concat %s %s)))"%(by(0),by(1)),
 3:"(if_int64 (twos24 a (s_off b)))",
 4:"(if_int64 ((_ sign_extend 32) (concat %s %s %s %s)))"%(by(0),by(1),by(2),by(3)),
 5:"(if_int64 (twos48 a (s_off b)))",
 6:"(if_int64 (be64 a (s_off b)))",
 7:"(if_float64 ((_ to_fp 11 53) (be64 a (s_off b))))",
 8:"(if_int64 %s)"%lit(0),
 9:"(if_int64 %s)"%lit(1),
}
e="(ite (= ((_ extract 0 0) t) #b0) (if_LRuint8 (mk_slice (s_reg b) (s_off b) (serial_size t) (s_cap b))) (if_string (mk_str a (s_off b) (serial_size t))))"
for k in range(9,-1,-1):
    e="(ite (= t %s) %s %s)"%(lit(k),vals[k],e)
o.append("(define-fun serial_value ((t %s) (a %s) (b Slice)) Iface %s)"%(W,B,e))
o.append("(define-fun storable ((v Iface)) Bool (or ((_ is if_nil) v) ((_ is if_int64) v) ((_ is if_float64) v) ((_ is if_string) v) ((_ is if_LRuint8) v)))")
for l in o: print("//@ "+l)
