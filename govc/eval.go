package main

// Evaluation of contract expressions to SMT terms in a symbolic state.

import (
	"fmt"
	"go/types"
	"strings"

	"golang.org/x/tools/go/ssa"
)

type Env struct {
	fx        *FX
	fr        *frame
	st        *State
	old       *State
	names     map[string]Val
	onlyNames bool
	bound     map[string]Val
	preNames  map[string]Val
	preState  *State
	freeCells map[string]Val // captured variables of a closure whose contract is being applied: name -> cell
	noAlias   bool
	at        *ssa.BasicBlock // loop header the expression is evaluated at (name resolution)
	goal      bool // evaluating a proof goal (witness hints may be used in positive positions)
	neg       bool
}

type evalErr struct{ msg string }

func (fx *FX) newEnv(fr *frame, st *State) *Env {
	return &Env{fx: fx, fr: fr, st: st, old: fx.oldState, names: map[string]Val{}, bound: map[string]Val{}}
}

func (env *Env) fail(format string, a ...interface{}) {
	panic(evalErr{fmt.Sprintf(format, a...)})
}

func (fx *FX) evalBool(env *Env, e Expr) Term {
	v := fx.evalExpr(env, e)
	if v.T.Sort != SBool {
		env.fail("boolean expected, got sort %s", v.T.Sort)
	}
	return v.T
}

const litSort = "LIT"

func litVal(l *ELit) Val { return Val{T: Term{S: fmt.Sprintf("%d/%v", l.I, l.Neg), Sort: litSort}} }

func parseLit(t Term) (uint64, bool) {
	var v uint64
	var neg bool
	fmt.Sscanf(t.S, "%d/%t", &v, &neg)
	return v, neg
}

func coerce(v Val, sort string, signed bool) Val {
	if v.T.Sort != litSort {
		return v
	}
	val, neg := parseLit(v.T)
	if sort == SInt {
		if neg {
			return Val{T: IntLit(-int64(val))}
		}
		return Val{T: Term{S: fmt.Sprintf("%d", val), Sort: SInt}}
	}
	w := bvWidth(sort)
	if w == 0 {
		panic(evalErr{"integer literal used where sort " + sort + " is expected"})
	}
	if neg {
		val = -val
	}
	if w < 64 {
		val &= (1 << uint(w)) - 1
	}
	t := BVLit(val, w)
	t.Signed = signed
	return Val{T: t}
}

func (env *Env) lookup(name string) (Val, bool) {
	fx := env.fx
	if v, ok := env.bound[name]; ok {
		return v, true
	}
	if v, ok := env.names[name]; ok {
		return v, true
	}
	if c, ok := env.freeCells[name]; ok {
		if c.Addr != nil {
			return Val{T: fx.load(env.fr, env.st, c.Addr, 0), Typ: c.Addr.FTyp}, true
		}
		if pt, isPtr := c.Typ.Underlying().(*types.Pointer); isPtr {
			a := fx.addrOfTerm(c.T, pt.Elem())
			return Val{T: fx.load(env.fr, env.st, a, 0), Typ: pt.Elem()}, true
		}
		return c, true
	}
	fr := env.fr
	if !env.onlyNames && fr != nil {
		if fr.c != nil {
			if ps, ok := fr.c.Opts["params"]; ok {
				for i, n := range strings.Fields(ps) {
					if n == name && i < len(fr.params) {
						return fr.params[i], true
					}
				}
			}
		}
		for i, p := range fr.fn.Params {
			if p.Name() == name && i < len(fr.params) {
				return fr.params[i], true
			}
		}
		if k := fx.e.paramAlias(fr.fn, name); k >= 0 && k < len(fr.params) {
			return fr.params[k], true
		}
		for i, p := range fr.fn.FreeVars {
			if p.Name() == name && i < len(fr.freeVals) {
				v := fr.freeVals[i]
				if v.Addr != nil {
					return Val{T: fx.load(fr, env.st, v.Addr, 0), Typ: derefType(p.Type())}, true
				}
				if _, isPtr := p.Type().Underlying().(*types.Pointer); isPtr {
					// captured variable cell: name denotes its content
					a := fx.addrOfTerm(v.T, derefType(p.Type()))
					return Val{T: fx.load(fr, env.st, a, 0), Typ: derefType(p.Type())}, true
				}
				return v, true
			}
		}
		// a name shared by several address-taken variables (one per loop, say): the one in scope at
		// the place the clause is evaluated
		if env.at != nil {
			if v := fr.resolveAt(name, env.at); v != nil {
				if a, isAlloc := v.(*ssa.Alloc); isAlloc {
					if av, ok2 := fr.vals[a]; ok2 {
						if av.Addr != nil {
							return Val{T: fx.load(fr, env.st, av.Addr, 0), Typ: derefType(a.Type())}, true
						}
						ad := fx.addrOfTerm(av.T, derefType(a.Type()))
						return Val{T: fx.load(fr, env.st, ad, 0), Typ: derefType(a.Type())}, true
					}
				}
			}
		}
		// named SSA values via DebugRef, and address-taken locals via Alloc comments
		if v, ok := fr.debugNames()[name]; ok {
			if a, isAlloc := v.(*ssa.Alloc); isAlloc {
				if av, ok2 := fr.vals[a]; ok2 {
					if av.Addr != nil {
						return Val{T: fx.load(fr, env.st, av.Addr, 0), Typ: derefType(a.Type())}, true
					}
					ad := fx.addrOfTerm(av.T, derefType(a.Type()))
					return Val{T: fx.load(fr, env.st, ad, 0), Typ: derefType(a.Type())}, true
				}
				// the variable has not been allocated on this path: it has its zero value
				return Val{T: fx.e.W.Zero(derefType(a.Type())), Typ: derefType(a.Type())}, true
			} else if sv, ok2 := fr.vals[v]; ok2 {
				return sv, true
			}
		}
		// a local that was renamed since the contracts were written (recorded bindings)
		if !env.noAlias {
			if alt := fx.e.localAlias(fr.fn, name); alt != "" {
				env.noAlias = true
				v, ok := env.lookup(alt)
				env.noAlias = false
				if ok {
					return v, true
				}
			}
		}
		// a name with several SSA definitions, looked up at a loop header: the definition that
		// dominates the header and is dominated by every other dominating definition (the latest)
		if env.at != nil {
			if v := fr.resolveAt(name, env.at); v != nil {
				if sv, ok2 := fr.vals[v]; ok2 {
					return sv, true
				}
			}
		}
	}
	for _, g := range fx.e.CS.Ghosts {
		if g.Name == name {
			fx.ghostUsed = true
			return Val{T: withSign(fx.comp(env.st, "G:"+name, g.Sort), true)}, true
		}
	}
	if sf, ok := fx.e.CS.Funs[name]; ok && len(sf.Args) == 0 {
		return Val{T: T(name, sf.Ret)}, true
	}
	// package-level variable of the function's package
	if fr != nil {
		pkg := fr.fn.Pkg
		if pkg == nil && fr.fn.Parent() != nil {
			pkg = fr.fn.Parent().Pkg
		}
		if pkg != nil {
			if g, ok := pkg.Members[name].(*ssa.Global); ok {
				return Val{T: fx.loadGlobal(fr, env.st, g), Typ: derefType(g.Type())}, true
			}
		}
	}
	// a package-level variable of any repository package, when the name is unambiguous
	{
		var found *ssa.Global
		n := 0
		for _, p := range fx.e.Pkgs {
			if g, ok := p.Members[name].(*ssa.Global); ok {
				found = g
				n++
			}
		}
		if n == 1 {
			return Val{T: fx.loadGlobal(fr, env.st, found), Typ: derefType(found.Type())}, true
		}
	}
	for _, p := range fx.e.Pkgs {
		if strings.HasPrefix(name, p.Pkg.Name()+"_") {
			if g, ok := p.Members[strings.TrimPrefix(name, p.Pkg.Name()+"_")].(*ssa.Global); ok {
				return Val{T: fx.loadGlobal(fr, env.st, g), Typ: derefType(g.Type())}, true
			}
		}
	}
	return Val{}, false
}

func (fx *FX) addrOfTerm(t Term, pt types.Type) *Addr {
	if _, ok := pt.Underlying().(*types.Struct); ok {
		return &Addr{Kind: "heapobj", Obj: t, Base: pt, FTyp: pt, SName: fx.e.W.SortOf(pt)}
	}
	return &Addr{Kind: "box", Obj: t, Base: pt, FTyp: pt}
}

func (fr *frame) resolveAt(name string, at *ssa.BasicBlock) ssa.Value {
	if fr.dbgAll == nil {
		fr.dbgAll = map[string][]ssa.Value{}
		for _, b := range fr.fn.Blocks {
			for _, ins := range b.Instrs {
				if t, ok := ins.(*ssa.DebugRef); ok && !t.IsAddr && t.Expr != nil {
					n := types.ExprString(t.Expr)
					dup := false
					for _, o := range fr.dbgAll[n] {
						if o == t.X {
							dup = true
						}
					}
					if !dup {
						fr.dbgAll[n] = append(fr.dbgAll[n], t.X)
					}
				}
			}
		}
	}
	var best ssa.Value
	var bestBlock *ssa.BasicBlock
	bestIdx := -1
	// address-taken variables of that name: defined where they are first stored to
	if fr.allocsByName == nil {
		fr.allocsByName = map[string][]*ssa.Alloc{}
		for _, b := range fr.fn.Blocks {
			for _, ins := range b.Instrs {
				if a, ok := ins.(*ssa.Alloc); ok && a.Comment != "" && !strings.Contains(a.Comment, " ") {
					fr.allocsByName[a.Comment] = append(fr.allocsByName[a.Comment], a)
				}
			}
		}
	}
	if as := fr.allocsByName[name]; len(as) > 1 {
		for _, a := range as {
			for _, ref := range *a.Referrers() {
				st, ok := ref.(*ssa.Store)
				if !ok || st.Addr != ssa.Value(a) {
					continue
				}
				b := st.Block()
				if b == nil || !b.Dominates(at) {
					continue
				}
				if best == nil || (bestBlock != b && bestBlock.Dominates(b)) {
					best, bestBlock, bestIdx = a, b, 0
				}
			}
		}
		if best != nil {
			return best
		}
	}
	for _, v := range fr.dbgAll[name] {
		ins, ok := v.(ssa.Instruction)
		if !ok {
			continue // parameters and constants are found by the ordinary lookup
		}
		b := ins.Block()
		if b == nil || !b.Dominates(at) {
			continue
		}
		if b == at {
			// at a loop header only its phis are defined; at the end of a body block everything in it is
			if _, isPhi := v.(*ssa.Phi); !isPhi {
				if _, headerHasPhi := at.Instrs[0].(*ssa.Phi); headerHasPhi || len(at.Preds) > 1 {
					continue
				}
			}
		}
		idx := 0
		for k, in2 := range b.Instrs {
			if in2 == ins {
				idx = k
			}
		}
		if best == nil || (bestBlock != b && bestBlock.Dominates(b)) || (bestBlock == b && idx > bestIdx) {
			best, bestBlock, bestIdx = v, b, idx
		}
	}
	return best
}

func (fr *frame) debugNames() map[string]ssa.Value {
	if fr.dbg != nil {
		return fr.dbg
	}
	fr.dbg = map[string]ssa.Value{}
	amb := map[string]bool{}
	for _, b := range fr.fn.Blocks {
		for _, ins := range b.Instrs {
			switch t := ins.(type) {
			case *ssa.DebugRef:
				if t.IsAddr {
					continue
				}
				if id := t.Expr; id != nil {
					name := types.ExprString(id)
					if old, ok := fr.dbg[name]; ok && old != t.X {
						amb[name] = true
					}
					fr.dbg[name] = t.X
				}
			case *ssa.Alloc:
				if t.Comment != "" && !strings.Contains(t.Comment, " ") {
					if _, ok := fr.dbg[t.Comment]; ok {
						amb[t.Comment] = true
					}
					fr.dbg[t.Comment] = t
				}
			}
		}
	}
	for n := range amb {
		if _, isAlloc := fr.dbg[n].(*ssa.Alloc); !isAlloc {
			delete(fr.dbg, n)
		}
	}
	// address-taken variables: the name always denotes the variable's cell
	for _, b := range fr.fn.Blocks {
		for _, ins := range b.Instrs {
			if t, ok := ins.(*ssa.Alloc); ok && t.Comment != "" && !strings.Contains(t.Comment, " ") && t.Comment != "complit" && t.Comment != "varargs" {
				fr.dbg[t.Comment] = t
			}
		}
	}
	return fr.dbg
}

func (fx *FX) evalExpr(env *Env, e Expr) Val {
	w := fx.e.W
	switch t := e.(type) {
	case *ELit:
		switch t.Kind {
		case "int":
			return litVal(t)
		case "bool":
			return Val{T: BoolLit(t.B)}
		case "nil":
			return Val{T: Term{S: "nil", Sort: "NIL"}}
		case "str":
			return Val{T: w.StrLit(t.S), Typ: types.Typ[types.String]}
		}
	case *EIdent:
		if v, ok := env.lookup(t.Name); ok {
			if v.Addr != nil {
				return Val{T: fx.termOf(env.fr, env.st, v), Typ: v.Typ}
			}
			return v
		}
		env.fail("unknown identifier %q", t.Name)
	case *EUnary:
		if t.Op == "!" {
			env.neg = !env.neg
		}
		x := fx.evalExpr(env, t.X)
		if t.Op == "!" {
			env.neg = !env.neg
		}
		switch t.Op {
		case "!":
			return Val{T: Not(x.T)}
		case "-":
			if x.T.Sort == SInt {
				return Val{T: app("-", SInt, x.T)}
			}
			r := app("bvneg", x.T.Sort, x.T)
			r.Signed = x.T.Signed
			return Val{T: r, Typ: x.Typ}
		case "^":
			r := app("bvnot", x.T.Sort, x.T)
			r.Signed = x.T.Signed
			return Val{T: r, Typ: x.Typ}
		}
	case *EBinary:
		return fx.evalBinary(env, t)
	case *EQuant:
		if !t.All && env.goal && !env.neg && len(t.Wit) == len(t.Vars) {
			all := true
			for _, wv := range t.Wit {
				if wv == nil {
					all = false
				}
			}
			if all {
				// exists with witnesses in goal position: prove the instance
				sub := map[string]Expr{}
				for i, v := range t.Vars {
					sub[v] = t.Wit[i]
				}
				return fx.evalExpr(env, substExpr(t.Body, sub))
			}
		}
		saved := map[string]Val{}
		var decls []string
		// absolute-index form: for a single integer variable q used as x[q], quantify over the
		// absolute array index a = off(x)+q so that the trigger select(array, a) has no arithmetic
		anchorPat := ""
		if len(t.Vars) == 1 && (t.Sorts[0] == "int" || t.Sorts[0] == "int64") {
			if ax := findAnchor(expandMacros(fx.e.CS, t.Body), t.Vars[0]); ax != nil {
				if xv, ok := fx.tryEval(env, ax); ok && xv.T.Sort == SSlice && xv.Typ != nil {
					v := t.Vars[0]
					if o, ok := env.bound[v]; ok {
						saved[v] = o
					}
					n := "q_" + v + "_abs"
					decls = append(decls, fmt.Sprintf("(%s %s)", n, SBV64))
					qt := bvbin("bvsub", T(n, SBV64), sOff(xv.T))
					qt.Signed = true
					env.bound[v] = Val{T: qt, Typ: types.Typ[types.Int]}
					es := w.SortOf(xv.Typ.Underlying().(*types.Slice).Elem())
					if xv.Imm != nil {
						anchorPat = Select(app(xv.Imm.fe, SArr(SBV64, es), xv.Imm.obj), T(n, SBV64)).S
					} else {
						mem := fx.comp(env.st, "M:"+sortID(es), SArr(SInt, SArr(SBV64, es)))
						if strings.Contains(mem.S, "(") || strings.HasPrefix(mem.S, "m_") || strings.HasPrefix(mem.S, "mem!") {
							// name the memory term so that it can appear in a pattern
							named := fx.nameConst("qmem", mem)
							env.st.comps["M:"+sortID(es)] = named
							mem = named
						}
						anchorPat = Select(Select(mem, sReg(xv.T)), T(n, SBV64)).S
					}
				}
			}
		}
		if anchorPat == "" {
			for i, v := range t.Vars {
				if o, ok := env.bound[v]; ok {
					saved[v] = o
				}
				var srt string
				signed := true
				var typ types.Type
				switch t.Sorts[i] {
				case "int", "int64":
					srt = SBV64
					typ = types.Typ[types.Int]
				case "uint64":
					srt = SBV64
					signed = false
				case "byte":
					srt = SBV8
					signed = false
				case "Int", "ref":
					srt = SInt
				case "bool":
					srt = SBool
				case "Bytes":
					srt = SBytes
				default:
					srt = t.Sorts[i]
				}
				n := "q_" + v
				decls = append(decls, fmt.Sprintf("(%s %s)", n, srt))
				bt := T(n, srt)
				bt.Signed = signed
				env.bound[v] = Val{T: bt, Typ: typ}
			}
		}
		body := fx.evalBool(env, t.Body)
		for _, v := range t.Vars {
			delete(env.bound, v)
			if o, ok := saved[v]; ok {
				env.bound[v] = o
			}
		}
		q := "exists"
		if t.All {
			q = "forall"
		}
		if anchorPat != "" && strings.Contains(body.S, anchorPat) {
			return Val{T: T(fmt.Sprintf("(%s (%s) (! %s :pattern (%s)))", q, strings.Join(decls, " "), body.S, anchorPat), SBool)}
		}
		return Val{T: T(fmt.Sprintf("(%s (%s) %s)", q, strings.Join(decls, " "), body.S), SBool)}
	case *EField:
		// package-qualified global?
		if id, ok := t.X.(*EIdent); ok {
			if _, isVar := env.lookup(id.Name); !isVar {
				for _, p := range fx.e.Pkgs {
					if p.Pkg.Name() == id.Name {
						if g, ok := p.Members[t.F].(*ssa.Global); ok {
							return Val{T: fx.loadGlobal(env.fr, env.st, g), Typ: derefType(g.Type())}
						}
					}
				}
			}
		}
		x := fx.evalExpr(env, t.X)
		return fx.evalField(env, x, t.F)
	case *EIndex:
		x := fx.evalExpr(env, t.X)
		i := coerce(fx.evalExpr(env, t.I), SBV64, true)
		switch {
		case x.T.Sort == SSlice:
			if x.Typ == nil {
				env.fail("indexing a slice of unknown element type")
			}
			el := x.Typ.Underlying().(*types.Slice).Elem()
			es := w.SortOf(el)
			var r Term
			at := bvbin("bvadd", sOff(x.T), i.T)
			if pre := "(bvsub "; strings.HasPrefix(i.T.S, pre) && strings.HasSuffix(i.T.S, " "+sOff(x.T).S+")") {
				at = T(strings.TrimSuffix(strings.TrimPrefix(i.T.S, pre), " "+sOff(x.T).S+")"), SBV64)
			}
			if x.Imm != nil {
				r = Select(app(x.Imm.fe, SArr(SBV64, es), x.Imm.obj), at)
			} else {
				mem := fx.comp(env.st, "M:"+sortID(es), SArr(SInt, SArr(SBV64, es)))
				r = Select(Select(mem, sReg(x.T)), at)
			}
			r.Signed = isSigned(el)
			return Val{T: r, Typ: el}
		case x.T.Sort == SStr:
			return Val{T: strAt(x.T, i.T), Typ: types.Typ[types.Byte]}
		case x.Typ != nil && isMapType(x.Typ):
			mt := x.Typ.Underlying().(*types.Map)
			k := fx.evalExpr(env, t.I)
			if k.T.Sort == litSort {
				k = coerce(k, w.SortOf(mt.Key()), isSigned(mt.Key()))
			}
			has, val := fx.mapRead(env.st, x.T, k.T, mt)
			return Val{T: Ite(has, val, w.Zero(mt.Elem())), Typ: mt.Elem()}
		case strings.HasPrefix(x.T.Sort, "(Array "):
			is, _ := splitArray(x.T.Sort)
			i = coerce(fx.evalExpr(env, t.I), is, true)
			r := Select(x.T, i.T)
			var et types.Type
			if x.Typ != nil {
				if a, ok := x.Typ.Underlying().(*types.Array); ok {
					et = a.Elem()
					r.Signed = isSigned(et)
				}
			}
			return Val{T: r, Typ: et}
		}
		env.fail("cannot index sort %s", x.T.Sort)
	case *ESlice:
		x := fx.evalExpr(env, t.X)
		zero := withSign(BVLit(0, 64), true)
		switch x.T.Sort {
		case SSlice:
			lo, hi := zero, sLen(x.T)
			if t.Lo != nil {
				lo = coerce(fx.evalExpr(env, t.Lo), SBV64, true).T
			}
			if t.Hi != nil {
				hi = coerce(fx.evalExpr(env, t.Hi), SBV64, true).T
			}
			return Val{T: mkSlice(sReg(x.T), bvbin("bvadd", sOff(x.T), lo), bvbin("bvsub", hi, lo), bvbin("bvsub", sCap(x.T), lo)), Typ: x.Typ, Imm: x.Imm}
		case SStr:
			lo, hi := zero, strLen(x.T)
			if t.Lo != nil {
				lo = coerce(fx.evalExpr(env, t.Lo), SBV64, true).T
			}
			if t.Hi != nil {
				hi = coerce(fx.evalExpr(env, t.Hi), SBV64, true).T
			}
			return Val{T: app("mk_str", SStr, app("st_arr", SBytes, x.T), bvbin("bvadd", app("st_off", SBV64, x.T), lo), bvbin("bvsub", hi, lo)), Typ: x.Typ}
		}
		env.fail("cannot slice sort %s", x.T.Sort)
	case *ECall:
		return fx.evalCall(env, t)
	}
	env.fail("cannot evaluate %T", e)
	return Val{}
}

func (fx *FX) evalField(env *Env, x Val, f string) Val {
	w := fx.e.W
	if x.Typ != nil {
		typ := x.Typ
		if p, ok := typ.Underlying().(*types.Pointer); ok {
			st, ok2 := p.Elem().Underlying().(*types.Struct)
			if !ok2 {
				env.fail("field of pointer to non-struct")
			}
			sname := w.SortOf(p.Elem())
			for k := 0; k < st.NumFields(); k++ {
				if st.Field(k).Name() == f {
					r := fx.loadHeapField(env.st, x.T, sname, k)
					r.Signed = isSigned(st.Field(k).Type())
					return Val{T: r, Typ: st.Field(k).Type(), Imm: fx.immElems(sname, k, x.T)}
				}
			}
			env.fail("no field %s", f)
		}
		if st, ok := typ.Underlying().(*types.Struct); ok {
			for k := 0; k < st.NumFields(); k++ {
				if st.Field(k).Name() == f {
					return Val{T: w.StructGet(x.T, k, st.Field(k).Type()), Typ: st.Field(k).Type()}
				}
			}
			env.fail("no field %s", f)
		}
	}
	if si, ok := w.structs[x.T.Sort]; ok {
		for k, n := range si.fnames {
			if n == f {
				return Val{T: w.StructGet(x.T, k, si.typ.Field(k).Type()), Typ: si.typ.Field(k).Type()}
			}
		}
	}
	env.fail("cannot select field %s of sort %s", f, x.T.Sort)
	return Val{}
}

func (fx *FX) evalBinary(env *Env, t *EBinary) Val {
	switch t.Op {
	case "&&":
		return Val{T: And(fx.evalBool(env, t.X), fx.evalBool(env, t.Y))}
	case "||":
		return Val{T: Or(fx.evalBool(env, t.X), fx.evalBool(env, t.Y))}
	case "==>":
		env.neg = !env.neg
		a := fx.evalBool(env, t.X)
		env.neg = !env.neg
		return Val{T: Implies(a, fx.evalBool(env, t.Y))}
	case "<==>":
		savedGoal := env.goal
		env.goal = false
		r := Val{T: IdEq(fx.evalBool(env, t.X), fx.evalBool(env, t.Y))}
		env.goal = savedGoal
		return r
	}
	x, y := fx.evalExpr(env, t.X), fx.evalExpr(env, t.Y)
	// literals adapt to the other operand
	if x.T.Sort == litSort && y.T.Sort == litSort {
		x = coerce(x, SBV64, true)
	}
	if x.T.Sort == litSort {
		typ := y.Typ
		x = coerce(x, y.T.Sort, y.T.Signed)
		x.Typ = typ
	}
	if y.T.Sort == litSort {
		typ := x.Typ
		y = coerce(y, x.T.Sort, x.T.Signed)
		y.Typ = typ
	}
	if x.T.Sort == "NIL" || y.T.Sort == "NIL" {
		other := x
		if x.T.Sort == "NIL" {
			other = y
		}
		var isnil Term
		switch other.T.Sort {
		case SIface:
			isnil = IfaceIsNil(other.T)
		case SSlice:
			isnil = IdEq(sReg(other.T), T("0", SInt))
		case SRef:
			isnil = IdEq(other.T, T("0", SInt))
		default:
			env.fail("nil compared with sort %s", other.T.Sort)
		}
		if t.Op == "!=" {
			return Val{T: Not(isnil)}
		}
		return Val{T: isnil}
	}
	if x.T.Sort != y.T.Sort {
		env.fail("operands of %s have different sorts: %s vs %s", t.Op, x.T.Sort, y.T.Sort)
	}
	signed := x.T.Signed || y.T.Signed
	xs, ys := x.T, y.T
	xs.Signed, ys.Signed = signed, signed
	switch t.Op {
	case "==", "!=":
		var e Term
		if xs.Sort == SStr && (strings.HasPrefix(xs.S, "strlit_") || strings.HasPrefix(ys.S, "strlit_") || xs.S == "empty_str" || ys.S == "empty_str") {
			e = fx.strEq(xs, ys)
		} else {
			e = IdEq(xs, ys)
		}
		if t.Op == "!=" {
			e = Not(e)
		}
		return Val{T: e}
	case "<":
		return Val{T: Lt(xs, ys)}
	case "<=":
		return Val{T: Le(xs, ys)}
	case ">":
		return Val{T: Gt(xs, ys)}
	case ">=":
		return Val{T: Ge(xs, ys)}
	}
	if xs.Sort == SInt {
		ops := map[string]string{"+": "+", "-": "-", "*": "*", "/": "div", "%": "mod"}
		if o, ok := ops[t.Op]; ok {
			return Val{T: app(o, SInt, xs, ys)}
		}
		env.fail("operator %s on Int", t.Op)
	}
	if bvWidth(xs.Sort) == 0 {
		env.fail("operator %s on sort %s", t.Op, xs.Sort)
	}
	var r Term
	switch t.Op {
	case "+":
		r = bvbin("bvadd", xs, ys)
	case "-":
		r = bvbin("bvsub", xs, ys)
	case "*":
		r = bvbin("bvmul", xs, ys)
	case "/":
		if signed {
			r = bvbin("bvsdiv", xs, ys)
		} else {
			r = bvbin("bvudiv", xs, ys)
		}
	case "%":
		if signed {
			r = bvbin("bvsrem", xs, ys)
		} else {
			r = bvbin("bvurem", xs, ys)
		}
	case "&":
		r = bvbin("bvand", xs, ys)
	case "|":
		r = bvbin("bvor", xs, ys)
	case "^":
		r = bvbin("bvxor", xs, ys)
	case "<<":
		r = bvbin("bvshl", xs, ys)
	case ">>":
		if signed {
			r = bvbin("bvashr", xs, ys)
		} else {
			r = bvbin("bvlshr", xs, ys)
		}
	default:
		env.fail("unknown operator %s", t.Op)
	}
	r.Signed = signed
	return Val{T: r, Typ: x.Typ}
}

var (
	tInt64   = types.Typ[types.Int64]
	tFloat64 = types.Typ[types.Float64]
	tString  = types.Typ[types.String]
	tBytes   = types.NewSlice(types.Typ[types.Byte])
)

func (fx *FX) evalCall(env *Env, t *ECall) Val {
	w := fx.e.W
	if m, ok := fx.e.CS.Macros[t.Fn]; ok {
		if len(m.Params) != len(t.Args) {
			env.fail("macro %s expects %d arguments", t.Fn, len(m.Params))
		}
		sub := map[string]Expr{}
		for i, p := range m.Params {
			sub[p] = t.Args[i]
		}
		return fx.evalExpr(env, substExpr(m.Expr, sub))
	}
	arg := func(i int) Val {
		if i >= len(t.Args) {
			env.fail("%s: missing argument %d", t.Fn, i)
		}
		return fx.evalExpr(env, t.Args[i])
	}
	conv := func(width int, signed bool, typ types.Type) Val {
		x := arg(0)
		if x.T.Sort == litSort {
			v := coerce(x, SBV(width), signed)
			v.Typ = typ
			return v
		}
		if x.T.Sort == SInt {
			env.fail("conversion from Int is not supported")
		}
		return Val{T: Resize(x.T, width, signed), Typ: typ}
	}
	switch t.Fn {
	case "old":
		if env.old == nil {
			env.fail("old() outside a postcondition")
		}
		saved := env.st
		env.st = env.old
		v := arg(0)
		env.st = saved
		return v
	case "pre":
		if env.preState == nil {
			env.fail("pre() outside a loop step clause")
		}
		savedSt, savedNames := env.st, env.names
		merged := map[string]Val{}
		for k, v := range env.names {
			merged[k] = v
		}
		for k, v := range env.preNames {
			merged[k] = v
		}
		env.st, env.names = env.preState, merged
		v := arg(0)
		env.st, env.names = savedSt, savedNames
		return v
	case "len":
		x := arg(0)
		switch x.T.Sort {
		case SSlice:
			return Val{T: sLen(x.T), Typ: types.Typ[types.Int]}
		case SStr:
			return Val{T: strLen(x.T), Typ: types.Typ[types.Int]}
		}
		if x.Typ != nil {
			if a, ok := x.Typ.Underlying().(*types.Array); ok {
				return Val{T: withSign(BVLit(uint64(a.Len()), 64), true), Typ: types.Typ[types.Int]}
			}
		}
		env.fail("len of sort %s", x.T.Sort)
	case "cap":
		return Val{T: sCap(arg(0).T), Typ: types.Typ[types.Int]}
	case "allmem":
		return Val{T: fx.comp(env.st, "M:bv8", SArr(SInt, SBytes))}
	case "only_region":
		// only_region(s): of the memory of s's element sort, only the region of slice s may differ from
		// what it was when the call started (every other region that existed then is unchanged)
		if env.old == nil {
			env.fail("only_region() outside a postcondition / loop clause with an entry state")
		}
		x := arg(0)
		if x.T.Sort != SSlice || x.Typ == nil {
			env.fail("only_region: argument must be a typed slice")
		}
		es := w.SortOf(x.Typ.Underlying().(*types.Slice).Elem())
		key := "M:" + sortID(es)
		now := fx.comp(env.st, key, SArr(SInt, SArr(SBV64, es)))
		was := fx.comp(env.old, key, SArr(SInt, SArr(SBV64, es)))
		al := fx.comp(env.old, "$alloc", SInt)
		return Val{T: T(fmt.Sprintf("(forall ((q_reg Int)) (! (=> (and (< q_reg %s) (not (= q_reg %s))) (= (select %s q_reg) (select %s q_reg))) :pattern ((select %s q_reg))))", al.S, sReg(x.T).S, now.S, was.S, now.S), SBool)}
	case "bytes_kept":
		// every byte region that existed when the call started has the contents it had then
		if env.old == nil {
			env.fail("bytes_kept() outside a postcondition / loop clause with an entry state")
		}
		now := fx.comp(env.st, "M:bv8", SArr(SInt, SBytes))
		was := fx.comp(env.old, "M:bv8", SArr(SInt, SBytes))
		al := fx.comp(env.old, "$alloc", SInt)
		return Val{T: T(fmt.Sprintf("(forall ((q_reg Int)) (! (=> (< q_reg %s) (= (select %s q_reg) (select %s q_reg))) :pattern ((select %s q_reg))))", al.S, now.S, was.S, now.S), SBool)}
	case "has":
		// has(m, k): key k is present in map m
		x := arg(0)
		if x.Typ == nil || !isMapType(x.Typ) {
			env.fail("has() needs a map")
		}
		mt := x.Typ.Underlying().(*types.Map)
		k := arg(1)
		if k.T.Sort == litSort {
			k = coerce(k, w.SortOf(mt.Key()), isSigned(mt.Key()))
		}
		h, _ := fx.mapRead(env.st, x.T, k.T, mt)
		return Val{T: h}
	case "deepid":
		// deepid(s): abstract identity of a slice's deep contents - a function of its offset, length,
		// nil-ness and the array of its own region only (reflect.DeepEqual on two slices of the same
		// type is equality of these, while the memory of the element type is the same for both)
		x := arg(0)
		sl, ok := x.Typ.Underlying().(*types.Slice)
		if x.T.Sort != SSlice || !ok {
			env.fail("deepid needs a typed slice")
		}
		es := w.SortOf(sl.Elem())
		fn := "deepid_" + sortID(es)
		w.Declare(fn, fmt.Sprintf("(declare-fun %s ((_ BitVec 64) (_ BitVec 64) Bool %s) Int)", fn, SArr(SBV64, es)))
		mem := fx.comp(env.st, "M:"+sortID(es), SArr(SInt, SArr(SBV64, es)))
		return Val{T: app(fn, SInt, sOff(x.T), sLen(x.T), IdEq(sReg(x.T), T("0", SInt)), Select(mem, sReg(x.T)))}
	case "f64toi64":
		// Go's int64(f) for a float64 in range: truncation toward zero
		x := arg(0)
		return Val{T: withSign(T(fmt.Sprintf("((_ fp.to_sbv 64) RTZ %s)", x.T.S), SBV64), true), Typ: types.Typ[types.Int64]}
	case "streq":
		// content equality of two strings (Go's == on strings)
		return Val{T: fx.strEq(arg(0).T, arg(1).T)}
	case "isnan":
		x := arg(0)
		return Val{T: app("fp.isNaN", SBool, x.T)}
	case "mem":
		x := arg(0)
		if x.T.Sort == SStr {
			return Val{T: app("st_arr", SBytes, x.T)}
		}
		es := SBV8
		if x.Typ != nil {
			if sl, ok := x.Typ.Underlying().(*types.Slice); ok {
				es = w.SortOf(sl.Elem())
			}
		}
		mem := fx.comp(env.st, "M:"+sortID(es), SArr(SInt, SArr(SBV64, es)))
		return Val{T: Select(mem, sReg(x.T))}
	case "off":
		x := arg(0)
		if x.T.Sort == SStr {
			return Val{T: app("st_off", SBV64, x.T)}
		}
		return Val{T: sOff(x.T)}
	case "reg":
		return Val{T: sReg(arg(0).T)}
	case "ite":
		c := fx.evalBool(env, t.Args[0])
		a, b := arg(1), arg(2)
		if a.T.Sort == litSort && b.T.Sort == litSort {
			a = coerce(a, SBV64, true)
		}
		if a.T.Sort == litSort {
			a = coerce(a, b.T.Sort, b.T.Signed)
		}
		if b.T.Sort == litSort {
			b = coerce(b, a.T.Sort, a.T.Signed)
		}
		return Val{T: Ite(c, a.T, b.T), Typ: a.Typ}
	case "int64", "int":
		return conv(64, true, types.Typ[types.Int64])
	case "uint64", "uint":
		return conv(64, false, types.Typ[types.Uint64])
	case "int32":
		return conv(32, true, types.Typ[types.Int32])
	case "uint32":
		return conv(32, false, types.Typ[types.Uint32])
	case "int16":
		return conv(16, true, types.Typ[types.Int16])
	case "uint16":
		return conv(16, false, types.Typ[types.Uint16])
	case "int8":
		return conv(8, true, types.Typ[types.Int8])
	case "uint8", "byte":
		return conv(8, false, types.Typ[types.Uint8])
	case "ult":
		a, b := arg(0), arg(1)
		b = coerce(b, a.T.Sort, false)
		return Val{T: app("bvult", SBool, a.T, b.T)}
	case "ule":
		a, b := arg(0), arg(1)
		b = coerce(b, a.T.Sort, false)
		return Val{T: app("bvule", SBool, a.T, b.T)}
	case "isNilVal":
		return Val{T: IfaceIsNil(arg(0).T)}
	case "isInt64":
		return Val{T: w.IfaceIs(arg(0).T, tInt64)}
	case "asInt64":
		return Val{T: w.IfaceGet(arg(0).T, tInt64), Typ: tInt64}
	case "isFloat64":
		return Val{T: w.IfaceIs(arg(0).T, tFloat64)}
	case "asFloat64":
		return Val{T: w.IfaceGet(arg(0).T, tFloat64), Typ: tFloat64}
	case "isString":
		return Val{T: w.IfaceIs(arg(0).T, tString)}
	case "asString":
		return Val{T: w.IfaceGet(arg(0).T, tString), Typ: tString}
	case "isBytes":
		return Val{T: w.IfaceIs(arg(0).T, tBytes)}
	case "asBytes":
		return Val{T: w.IfaceGet(arg(0).T, tBytes), Typ: tBytes}
	case "mkInt64":
		return Val{T: w.MakeIface(coerce(arg(0), SBV64, true).T, tInt64)}
	case "mkFloat64":
		return Val{T: w.MakeIface(arg(0).T, tFloat64)}
	case "mkString":
		return Val{T: w.MakeIface(arg(0).T, tString)}
	case "mkBytes":
		return Val{T: w.MakeIface(arg(0).T, tBytes)}
	case "str":
		// string(bytes) snapshot
		x := arg(0)
		mem := fx.comp(env.st, "M:bv8", SArr(SInt, SBytes))
		return Val{T: app("mk_str", SStr, Select(mem, sReg(x.T)), sOff(x.T), sLen(x.T)), Typ: tString}
	case "hasType", "deref":
		x := arg(0)
		lit, ok := t.Args[1].(*ELit)
		if !ok || lit.Kind != "str" {
			env.fail("%s: second argument must be a type name string", t.Fn)
		}
		typ := fx.e.lookupType(lit.S)
		if typ == nil {
			env.fail("unknown type %q", lit.S)
		}
		if t.Fn == "hasType" {
			return Val{T: w.IfaceIs(x.T, typ)}
		}
		if x.T.Sort == SIface {
			return Val{T: w.IfaceGet(x.T, typ), Typ: typ}
		}
		return Val{T: x.T, Typ: typ}
	case "load":
		x := arg(0)
		if x.Typ == nil {
			env.fail("load of untyped reference")
		}
		pt, ok := x.Typ.Underlying().(*types.Pointer)
		if !ok {
			env.fail("load of non-pointer")
		}
		a := fx.addrOfTerm(x.T, pt.Elem())
		return Val{T: fx.load(env.fr, env.st, a, 0), Typ: pt.Elem()}
	case "iref":
		// reference carried by an interface value holding a pointer
		x := arg(0)
		return Val{T: fx.ifaceRef(x.T)}
	case "implements":
		env.fail("implements() not supported")
	case "fresh":
		// reference allocated after the call started
		if env.old == nil {
			env.fail("fresh() outside a postcondition")
		}
		x := arg(0)
		r := x.T
		if r.Sort == SSlice {
			r = sReg(r)
		}
		return Val{T: app(">=", SBool, r, fx.comp(env.old, "$alloc", SInt))}
	}
	if sf, ok := fx.e.CS.Funs[t.Fn]; ok {
		if len(sf.Args) != len(t.Args) {
			env.fail("%s expects %d arguments", t.Fn, len(sf.Args))
		}
		var as []Term
		for i := range t.Args {
			a := arg(i)
			if a.T.Sort == litSort {
				a = coerce(a, sf.Args[i], true)
			}
			if a.T.Sort == "NIL" {
				switch sf.Args[i] {
				case SIface:
					a.T = T("if_nil", SIface)
				case SRef:
					a.T = T("0", SRef)
				}
			}
			if a.T.Sort != sf.Args[i] {
				env.fail("%s: argument %d has sort %s, want %s", t.Fn, i, a.T.Sort, sf.Args[i])
			}
			as = append(as, a.T)
		}
		r := app(t.Fn, sf.Ret, as...)
		if len(as) == 0 {
			r = T(t.Fn, sf.Ret)
		}
		if bvWidth(sf.Ret) == 64 {
			r.Signed = true
		}
		return Val{T: r}
	}
	env.fail("unknown function %q", t.Fn)
	return Val{}
}

// ifaceRef extracts the reference from an interface value holding a pointer.
func (fx *FX) ifaceRef(x Term) Term {
	w := fx.e.W
	r := T("0", SRef)
	for _, k := range w.ifaceOrd {
		c := w.ifaceCons[k]
		if _, isPtr := c.typ.Underlying().(*types.Pointer); isPtr && c.payload == SRef {
			r = Ite(app("(_ is "+c.con+")", SBool, x), app(c.sel, SRef, x), r)
		}
	}
	return r
}

// lookupType resolves "db.tableLeaf", "*db.tableLeaf", "[]byte", "int64", ... to a Go type.
func (e *Engine) lookupType(name string) types.Type {
	if strings.HasPrefix(name, "*") {
		if t := e.lookupType(name[1:]); t != nil {
			return types.NewPointer(t)
		}
		return nil
	}
	if strings.HasPrefix(name, "[]") {
		if t := e.lookupType(name[2:]); t != nil {
			return types.NewSlice(t)
		}
		return nil
	}
	if obj := types.Universe.Lookup(name); obj != nil {
		if tn, ok := obj.(*types.TypeName); ok {
			return tn.Type()
		}
	}
	for _, p := range e.Prog.AllPackages() {
		if !strings.Contains(name, p.Pkg.Name()+".") {
			continue
		}
		for _, m := range p.Members {
			if t, ok := m.(*ssa.Type); ok && e.W.typeString(t.Type()) == name {
				return t.Type()
			}
		}
	}
	return nil
}

func isMapType(t types.Type) bool {
	_, ok := t.Underlying().(*types.Map)
	return ok
}

func substExpr(e Expr, sub map[string]Expr) Expr {
	switch t := e.(type) {
	case *EIdent:
		if r, ok := sub[t.Name]; ok {
			return r
		}
		return t
	case *EUnary:
		return &EUnary{Op: t.Op, X: substExpr(t.X, sub)}
	case *EBinary:
		return &EBinary{Op: t.Op, X: substExpr(t.X, sub), Y: substExpr(t.Y, sub)}
	case *ECall:
		n := &ECall{Fn: t.Fn}
		for _, a := range t.Args {
			n.Args = append(n.Args, substExpr(a, sub))
		}
		return n
	case *EIndex:
		return &EIndex{X: substExpr(t.X, sub), I: substExpr(t.I, sub)}
	case *ESlice:
		n := &ESlice{X: substExpr(t.X, sub)}
		if t.Lo != nil {
			n.Lo = substExpr(t.Lo, sub)
		}
		if t.Hi != nil {
			n.Hi = substExpr(t.Hi, sub)
		}
		return n
	case *EField:
		return &EField{X: substExpr(t.X, sub), F: t.F}
	case *EQuant:
		inner := map[string]Expr{}
		for k, v := range sub {
			inner[k] = v
		}
		for _, v := range t.Vars {
			delete(inner, v)
		}
		return &EQuant{All: t.All, Vars: t.Vars, Sorts: t.Sorts, Body: substExpr(t.Body, inner)}
	}
	return e
}

// findAnchor returns the first sub-expression x such that x[v] occurs in e and x does not mention v.
func findAnchor(e Expr, v string) Expr {
	var found Expr
	var walk func(e Expr)
	mentions := func(e Expr) bool {
		m := false
		var w2 func(e Expr)
		w2 = func(e Expr) {
			switch t := e.(type) {
			case *EIdent:
				if t.Name == v {
					m = true
				}
			case *EUnary:
				w2(t.X)
			case *EBinary:
				w2(t.X)
				w2(t.Y)
			case *ECall:
				for _, a := range t.Args {
					w2(a)
				}
			case *EIndex:
				w2(t.X)
				w2(t.I)
			case *EField:
				w2(t.X)
			case *ESlice:
				w2(t.X)
				if t.Lo != nil {
					w2(t.Lo)
				}
				if t.Hi != nil {
					w2(t.Hi)
				}
			case *EQuant:
				w2(t.Body)
			}
		}
		w2(e)
		return m
	}
	walk = func(e Expr) {
		if found != nil {
			return
		}
		switch t := e.(type) {
		case *EIndex:
			if id, ok := t.I.(*EIdent); ok && id.Name == v && !mentions(t.X) {
				found = t.X
				return
			}
			walk(t.X)
			walk(t.I)
		case *EUnary:
			walk(t.X)
		case *EBinary:
			walk(t.X)
			walk(t.Y)
		case *ECall:
			for _, a := range t.Args {
				walk(a)
			}
		case *EField:
			walk(t.X)
		case *ESlice:
			walk(t.X)
		case *EQuant:
			for _, bv := range t.Vars {
				if bv == v {
					return
				}
			}
			walk(t.Body)
		}
	}
	walk(e)
	return found
}

// tryEval evaluates e, reporting failure instead of aborting the contract.
func (fx *FX) tryEval(env *Env, e Expr) (v Val, ok bool) {
	defer func() {
		if r := recover(); r != nil {
			if _, isEval := r.(evalErr); isEval {
				ok = false
				return
			}
			panic(r)
		}
	}()
	return fx.evalExpr(env, e), true
}
