package main

import (
	"flag"
	"fmt"
	"os"
	"sort"
	"strings"
	"time"
)

func osEnviron() []string { return os.Environ() }

func main() {
	if len(os.Args) < 2 {
		fmt.Fprintln(os.Stderr, "usage: govc <verify|check|dump> [flags]")
		os.Exit(2)
	}
	switch os.Args[1] {
	case "verify":
		cmdVerify(os.Args[2:])
	case "check":
		cmdCheck(os.Args[2:])
	case "bindings":
		// record the names contracts may refer to, from the tree as it is now
		repo, out := "/repo", "/verif/bindings.json"
		if len(os.Args) > 2 {
			repo = os.Args[2]
		}
		if len(os.Args) > 3 {
			out = os.Args[3]
		}
		e, err := LoadEngine(repo)
		if err != nil {
			fmt.Fprintln(os.Stderr, "load:", err)
			os.Exit(2)
		}
		if err := e.writeBindings(out); err != nil {
			fmt.Fprintln(os.Stderr, err)
			os.Exit(2)
		}
	default:
		fmt.Fprintln(os.Stderr, "unknown command")
		os.Exit(2)
	}
}

// cmdVerify: developer command; verifies selected functions and prints a table.
func cmdVerify(args []string) {
	fs := flag.NewFlagSet("verify", flag.ExitOnError)
	repo := fs.String("repo", "/repo", "repository root")
	only := fs.String("func", "", "substring filter on contract names")
	prop := fs.String("prop", "", "property filter")
	work := fs.String("work", "/verif/work/smt", "directory for SMT scripts")
	quick := fs.Duration("quick", 3*time.Second, "first-attempt timeout")
	full := fs.Duration("full", 20*time.Second, "portfolio timeout")
	verbose := fs.Bool("v", false, "print every obligation")
	fs.Parse(args)
	t0 := time.Now()
	e, err := LoadEngine(*repo)
	if err != nil {
		fmt.Fprintln(os.Stderr, "load:", err)
		os.Exit(2)
	}
	fmt.Printf("loaded in %.1fs, %d functions, %d contracts\n", time.Since(t0).Seconds(), len(e.Funcs), len(e.CS.Order))
	if os.Getenv("GOVC_NAMES") != "" {
		for n := range e.Funcs {
			fmt.Println("  fn", n)
		}
	}
	results := e.RunContracts(func(c *Contract) bool {
		if *only != "" && !strings.Contains(c.Name, *only) {
			return false
		}
		if *prop != "" && !hasProp(c, *prop) {
			return false
		}
		return true
	}, *work, *quick, *full)
	bad := 0
	for _, r := range results {
		if r.Unsupported != "" {
			fmt.Printf("%-50s  NOT VERIFIED: %s\n", r.Name, r.Unsupported)
			bad++
			continue
		}
		d, rf, u := 0, 0, 0
		var tmax float64
		for _, ob := range r.Obligations {
			switch ob.Status {
			case "discharged":
				d++
			case "refuted":
				rf++
			default:
				u++
			}
			if ob.Time > tmax {
				tmax = ob.Time
			}
		}
		fmt.Printf("%-50s  %3d obligations: %3d discharged %2d refuted %2d undecided  (max %.1fs)", r.Name, len(r.Obligations), d, rf, u, tmax)
		if len(r.UnknownCalls) > 0 {
			fmt.Printf("  unknown calls: %s", strings.Join(r.UnknownCalls, ","))
		}
		fmt.Println()
		for _, ob := range r.Obligations {
			if ob.Status != "discharged" || *verbose {
				fmt.Printf("    %-10s %-9s %s  [%s] %s (%.2fs %s)\n", ob.Status, ob.Kind, ob.Name, ob.Pos, ob.Clause, ob.Time, ob.Solver)
				if ob.Status != "discharged" {
					bad++
				}
			}
		}
	}
	fmt.Printf("total %.1fs\n", time.Since(t0).Seconds())
	if bad > 0 {
		os.Exit(1)
	}
}

func hasProp(c *Contract, p string) bool {
	// C05 (no panic, no hang) is served by the safety and termination obligations of every function
	// whose body is verified
	if p == "C05" && (c.Kind == "func" || c.Kind == "closure") && !c.Trusted {
		return true
	}
	for _, x := range c.Props {
		if x == p {
			return true
		}
	}
	var all []*Clause
	all = append(all, c.Requires...)
	all = append(all, c.Ensures...)
	all = append(all, c.Asserts...)
	for _, l := range c.Loops {
		all = append(all, l...)
	}
	for _, cl := range all {
		for _, x := range cl.Props {
			if x == p {
				return true
			}
		}
	}
	return false
}

// RunContracts verifies every selected contract that has a body to verify.
func (e *Engine) RunContracts(sel func(*Contract) bool, work string, quick, full time.Duration) []*FuncResult {
	var results []*FuncResult
	var all []*Obligation
	for _, c := range e.CS.Order {
		if !sel(c) {
			continue
		}
		switch c.Kind {
		case "func", "closure":
			if c.Trusted {
				continue
			}
			fn := e.Funcs[c.Name]
			if fn == nil {
				results = append(results, &FuncResult{Name: c.Name, Contract: c, Unsupported: "contract does not bind: no such function in the repository"})
				continue
			}
			r := e.VerifyFunc(fn, c)
			results = append(results, r)
			all = append(all, r.Obligations...)
		case "lemma":
			r := e.VerifyLemma(c)
			results = append(results, r)
			all = append(all, r.Obligations...)
		}
	}
	solveAll(all, work, quick, full, 16)
	sort.SliceStable(results, func(i, j int) bool { return false })
	return results
}

func cmdCheck(args []string) {
	runCheck(args)
}
