package main

import (
	"fmt"
	"go/constant"
	"go/token"
	"go/types"
	"math"
	"strings"

	"golang.org/x/tools/go/ssa"
)

func (fr *frame) val(v ssa.Value) Val {
	fx := fr.fx
	switch t := v.(type) {
	case *ssa.Const:
		return fx.constVal(t)
	case *ssa.Function:
		id := T(fmt.Sprintf("%d", 1000+hashString(t.String())%100000), SRef)
		if c := fx.e.contractFor(t); c != nil {
			if p, ok := c.Opts["establishes"]; ok {
				// a verified contract on t defines the ghost predicate p for this function value
				fx.e.W.Declare("est_"+p+"_"+id.S, fmt.Sprintf("(assert (%s %s))", p, id.S))
				fx.estUsed = append(fx.estUsed, "est_"+p+"_"+id.S)
			}
		}
		return Val{Clo: &Closure{Fn: t}, Typ: t.Type(), T: id}
	case *ssa.Global:
		return Val{Addr: &Addr{Kind: "global", Glob: t, Base: t.Type().Underlying().(*types.Pointer).Elem(), FTyp: t.Type().Underlying().(*types.Pointer).Elem()}, Typ: t.Type()}
	case *ssa.FreeVar:
		for i, f := range fr.fn.FreeVars {
			if f == t {
				return fr.freeVals[i]
			}
		}
	case *ssa.Parameter:
		for i, p := range fr.fn.Params {
			if p == t {
				return fr.params[i]
			}
		}
	case *ssa.Builtin:
		return Val{None: true, Typ: t.Type()}
	}
	if x, ok := fr.vals[v]; ok {
		return x
	}
	fx.unsupportedf("value %s (%T) used before definition in %s", v.Name(), v, fr.fn)
	return Val{}
}

func (fx *FX) constVal(c *ssa.Const) Val {
	w := fx.e.W
	t := c.Type()
	if c.Value == nil {
		z := w.Zero(t)
		return Val{T: z, Typ: t}
	}
	switch u := t.Underlying().(type) {
	case *types.Basic:
		switch {
		case u.Info()&types.IsBoolean != 0:
			return Val{T: BoolLit(constant.BoolVal(c.Value)), Typ: t}
		case u.Info()&types.IsInteger != 0:
			width := intWidth(u)
			var bits uint64
			if i, ok := constant.Int64Val(constant.ToInt(c.Value)); ok {
				bits = uint64(i)
			} else if ui, ok := constant.Uint64Val(constant.ToInt(c.Value)); ok {
				bits = ui
			}
			if width < 64 {
				bits &= (1 << uint(width)) - 1
			}
			lit := BVLit(bits, width)
			lit.Signed = isSigned(t)
			return Val{T: lit, Typ: t}
		case u.Info()&types.IsFloat != 0:
			f, _ := constant.Float64Val(c.Value)
			if u.Kind() == types.Float32 {
				b := math.Float32bits(float32(f))
				return Val{T: T(fmt.Sprintf("((_ to_fp 8 24) #x%08x)", b), SF32), Typ: t}
			}
			b := math.Float64bits(f)
			return Val{T: T(fmt.Sprintf("((_ to_fp 11 53) #x%016x)", b), SF64), Typ: t}
		case u.Info()&types.IsString != 0:
			return Val{T: w.StrLit(constant.StringVal(c.Value)), Typ: t}
		}
	}
	fx.unsupportedf("constant %s of type %s", c, t)
	return Val{}
}

func derefType(t types.Type) types.Type {
	return t.Underlying().(*types.Pointer).Elem()
}

func (fx *FX) newRef(st *State, label string) Term {
	a := fx.comp(st, "$alloc", SInt)
	r := fx.define("ref_"+label, a)
	fx.setComp(st, "$alloc", app("+", SInt, a, T("1", SInt)))
	logComp("$alloc")
	return r
}

// restrict the continuation to executions where cond holds, after emitting the safety obligation.
func (fx *FX) safe(fr *frame, st *State, what string, cond Term, pos token.Pos) {
	if cond.S == "true" {
		return
	}
	fx.oblige(st, "safe", fmt.Sprintf("safe(%s)", what), what, cond, pos, nil)
	st.reach = fx.define("r_safe", And(st.reach, cond))
}

func (fx *FX) execInstr(fr *frame, st *State, ins ssa.Instruction) bool {
	w := fx.e.W
	switch t := ins.(type) {
	case *ssa.DebugRef:
		return true
	case *ssa.Alloc:
		pt := derefType(t.Type())
		switch fx.allocKind(t) {
		case akCell:
			st.cells[t] = w.Zero(pt)
			logCell(t)
			fr.vals[t] = Val{Addr: &Addr{Kind: "cell", Alloc: t, Base: pt, FTyp: pt}, Typ: t.Type()}
		case akRegion:
			r := fx.newRef(st, t.Name())
			arr := pt.Underlying().(*types.Array)
			es := w.SortOf(arr.Elem())
			key := "M:" + sortID(es)
			mem := fx.comp(st, key, SArr(SInt, SArr(SBV64, es)))
			fx.setComp(st, key, Store(mem, r, w.Zero(pt)))
			logComp(key)
			fr.vals[t] = Val{Addr: &Addr{Kind: "region", Reg: r, Base: pt, FTyp: pt, ElemSort: es}, Typ: t.Type()}
		case akHeapObj:
			r := fx.newRef(st, t.Name())
			stt := pt.Underlying().(*types.Struct)
			sname := w.SortOf(pt)
			for k := 0; k < stt.NumFields(); k++ {
				fx.storeHeapField(fr, st, r, sname, k, pt, w.Zero(stt.Field(k).Type()), true)
			}
			fr.vals[t] = Val{T: r, Typ: t.Type()}
		case akBox:
			r := fx.newRef(st, t.Name())
			srt := w.SortOf(pt)
			key := "B:" + sortID(srt)
			box := fx.comp(st, key, SArr(SInt, srt))
			fx.setComp(st, key, Store(box, r, w.Zero(pt)))
			logComp(key)
			fr.vals[t] = Val{T: r, Typ: t.Type()}
		}
		return true
	case *ssa.Store:
		a := fx.addrOf(fr, st, t.Addr, t.Pos())
		v := fr.val(t.Val)
		fx.store(fr, st, a, fx.termOf(fr, st, v), t.Pos())
		return true
	case *ssa.UnOp:
		return fx.execUnOp(fr, st, t)
	case *ssa.BinOp:
		x, y := fr.val(t.X), fr.val(t.Y)
		if (t.Op == token.EQL || t.Op == token.NEQ) && (x.NilIf != nil || y.NilIf != nil) {
			p, o := x, y
			if p.NilIf == nil {
				p, o = y, x
			}
			if o.Addr == nil && o.T.Sort == SRef && o.T.S == "0" {
				e := *p.NilIf
				if t.Op == token.NEQ {
					e = Not(e)
				}
				fr.vals[t] = Val{T: fx.define(t.Name(), e), Typ: t.Type()}
				return true
			}
		}
		fr.vals[t] = Val{T: fx.define(t.Name(), fx.binop(fr, st, t.Op, x, y, t.X.Type(), t.Pos())), Typ: t.Type()}
		return true
	case *ssa.Convert:
		if sn, ok := fr.snap[t.X]; ok && w.SortOf(t.Type()) == SStr {
			x := fr.val(t.X).T
			fr.vals[t] = Val{T: fx.define(t.Name(), app("mk_str", SStr, sn[0], sn[1], sLen(x))), Typ: t.Type()}
			return true
		}
		fr.vals[t] = Val{T: fx.define(t.Name(), fx.convert(fr, st, fr.val(t.X), t.X.Type(), t.Type())), Typ: t.Type()}
		return true
	case *ssa.ChangeType:
		v := fr.val(t.X)
		v.Typ = t.Type()
		fr.vals[t] = v
		// a closure converted to a named func type with a protocol must have a contract implementing it
		if key := fx.e.namedTypeKey(t.Type()); key != "" && v.Clo != nil && v.Clo.Fn != nil {
			if proto := fx.e.CS.ByName["functype "+key]; proto != nil {
				ok := false
				if cc := fx.e.contractFor(v.Clo.Fn); cc != nil {
					for k := 0; k+1 < len(cc.Implements); k += 2 {
						if cc.Implements[k] == "functype" && cc.Implements[k+1] == key {
							ok = true
						}
					}
				}
				fx.oblige(st, "refine", fmt.Sprintf("conforms(%s as %s)", fx.e.fnName(v.Clo.Fn), key),
					"the closure has a verified contract that implements the protocol of "+key, BoolLit(ok), t.Pos(), proto.Props)
			}
		}
		return true
	case *ssa.ChangeInterface:
		fr.vals[t] = fr.val(t.X)
		return true
	case *ssa.MakeInterface:
		v := fr.val(t.X)
		fr.vals[t] = Val{T: w.MakeIface(fx.termOf(fr, st, v), t.X.Type()), Typ: t.Type()}
		return true
	case *ssa.TypeAssert:
		return fx.execTypeAssert(fr, st, t)
	case *ssa.Extract:
		tv := fr.val(t.Tuple)
		if t.Index >= len(tv.Tuple) {
			fx.unsupportedf("extract from non-tuple in %s", fr.fn)
		}
		fr.vals[t] = tv.Tuple[t.Index]
		return true
	case *ssa.FieldAddr:
		fr.vals[t] = Val{Addr: fx.fieldAddr(fr, st, t), Typ: t.Type()}
		return true
	case *ssa.Field:
		v := fr.val(t.X)
		ft := t.X.Type().Underlying().(*types.Struct).Field(t.Field).Type()
		fr.vals[t] = Val{T: w.StructGet(v.T, t.Field, ft), Typ: t.Type()}
		return true
	case *ssa.IndexAddr:
		fr.vals[t] = Val{Addr: fx.indexAddr(fr, st, t), Typ: t.Type()}
		return true
	case *ssa.Index:
		x, i := fr.val(t.X), fr.val(t.Index)
		switch xt := t.X.Type().Underlying().(type) {
		case *types.Array:
			idx := Resize(i.T, 64, true)
			fx.safe(fr, st, "index in range", And(Ge(idx, withSign(BVLit(0, 64), true)), Lt(idx, withSign(BVLit(uint64(xt.Len()), 64), true))), t.Pos())
			e := Select(x.T, idx)
			e.Signed = isSigned(xt.Elem())
			fr.vals[t] = Val{T: e, Typ: t.Type()}
		case *types.Basic: // string
			idx := Resize(i.T, 64, true)
			fx.safe(fr, st, "string index in range", And(Ge(idx, withSign(BVLit(0, 64), true)), Lt(idx, withSign(strLen(x.T), true))), t.Pos())
			fr.vals[t] = Val{T: strAt(x.T, idx), Typ: t.Type()}
		default:
			fx.unsupportedf("Index on %s", t.X.Type())
		}
		return true
	case *ssa.Lookup:
		return fx.execLookup(fr, st, t)
	case *ssa.Slice:
		return fx.execSlice(fr, st, t)
	case *ssa.MakeSlice:
		ln := Resize(fr.val(t.Len).T, 64, true)
		cp := Resize(fr.val(t.Cap).T, 64, true)
		zero := withSign(BVLit(0, 64), true)
		fx.safe(fr, st, "makeslice: len in range", And(Ge(ln, zero), Le(ln, cp), Le(cp, withSign(BVLit(1<<40, 64), true))), t.Pos())
		es := w.SortOf(t.Type().Underlying().(*types.Slice).Elem())
		r := fx.newRef(st, t.Name())
		key := "M:" + sortID(es)
		mem := fx.comp(st, key, SArr(SInt, SArr(SBV64, es)))
		zarr := T(fmt.Sprintf("((as const %s) %s)", SArr(SBV64, es), w.zeroSort(es, t.Type().Underlying().(*types.Slice).Elem()).S), SArr(SBV64, es))
		fx.setComp(st, key, Store(mem, r, zarr))
		logComp(key)
		fr.vals[t] = Val{T: fx.define(t.Name(), mkSlice(r, BVLit(0, 64), ln, cp)), Typ: t.Type()}
		return true
	case *ssa.MakeClosure:
		fn := t.Fn.(*ssa.Function)
		clo := &Closure{Fn: fn}
		for _, b := range t.Bindings {
			clo.Bindings = append(clo.Bindings, fr.val(b))
		}
		clo.id = fx.newRef(st, "closure")
		fr.vals[t] = Val{Clo: clo, T: clo.id, Typ: t.Type()}
		fx.closureCreated(fr, st, t, clo)
		return true
	case *ssa.MakeMap:
		r := fx.newRef(st, t.Name())
		mt := t.Type().Underlying().(*types.Map)
		ks := w.SortOf(mt.Key())
		hk := "MH:" + sortID(ks)
		hs := fx.comp(st, hk, SArr(SInt, SArr(ks, SBool)))
		fx.setComp(st, hk, Store(hs, r, T(fmt.Sprintf("((as const %s) false)", SArr(ks, SBool)), SArr(ks, SBool))))
		logComp(hk)
		nk := "ML:" + sortID(ks)
		ns := fx.comp(st, nk, SArr(SInt, SBV64))
		fx.setComp(st, nk, Store(ns, r, BVLit(0, 64)))
		logComp(nk)
		fr.vals[t] = Val{T: r, Typ: t.Type()}
		return true
	case *ssa.MapUpdate:
		mt := t.Map.Type().Underlying().(*types.Map)
		m := fx.termOf(fr, st, fr.val(t.Map))
		if strings.HasPrefix(m.S, "GL_") {
			fx.havocAll(st)
			return true
		}
		fx.safe(fr, st, "assignment to entry in nil map", Not(IdEq(m, T("0", SRef))), t.Pos())
		k := fx.termOf(fr, st, fr.val(t.Key))
		v := fx.termOf(fr, st, fr.val(t.Value))
		ks, vs := w.SortOf(mt.Key()), w.SortOf(mt.Elem())
		hk, vk, nk := "MH:"+sortID(ks), "MV:"+sortID(ks)+"_"+sortID(vs), "ML:"+sortID(ks)
		hs := fx.comp(st, hk, SArr(SInt, SArr(ks, SBool)))
		vals := fx.comp(st, vk, SArr(SInt, SArr(ks, vs)))
		ns := fx.comp(st, nk, SArr(SInt, SBV64))
		had := Select(Select(hs, m), k)
		fx.setComp(st, nk, Store(ns, m, Ite(had, Select(ns, m), bvbin("bvadd", Select(ns, m), BVLit(1, 64)))))
		fx.setComp(st, hk, Store(hs, m, Store(Select(hs, m), k, True)))
		fx.setComp(st, vk, Store(vals, m, Store(Select(vals, m), k, v)))
		logComp(hk)
		logComp(vk)
		logComp(nk)
		return true
	case *ssa.Call:
		return fx.execCall(fr, st, t, &t.Call, t)
	case *ssa.Defer:
		d := deferred{call: t, guard: st.reach}
		if !t.Call.IsInvoke() {
			d.fnv = fr.val(t.Call.Value)
		} else {
			d.fnv = fr.val(t.Call.Value)
		}
		for _, a := range t.Call.Args {
			d.args = append(d.args, fr.val(a))
		}
		st.defers = append(st.defers, d)
		return true
	case *ssa.RunDefers:
		fx.runDefers(fr, st)
		return true
	case *ssa.Range:
		fr.vals[t] = Val{T: fx.termOf(fr, st, fr.val(t.X)), Typ: t.X.Type()}
		if _, isMap := t.X.Type().Underlying().(*types.Map); !isMap && fx.hasUTF8() {
			name := fx.iterName(fr, t)
			fx.setComp(st, name, BVLit(0, 64))
			logComp(name)
		}
		return true
	case *ssa.Next:
		return fx.execNext(fr, st, t)
	case *ssa.Go, *ssa.Send, *ssa.Select, *ssa.MakeChan:
		fx.unsupportedf("concurrency instruction %T in %s", ins, fr.fn)
	}
	fx.unsupportedf("instruction %T (%s) in %s", ins, ins, fr.fn)
	return false
}

func (fx *FX) havocAll(st *State) {
	fx.havoc(st, []string{"*"})
	logComp("*")
}

func mkSlice(reg, off, ln, cp Term) Term { return app("mk_slice", SSlice, reg, off, ln, cp) }
func sReg(s Term) Term                  { return app("s_reg", SInt, s) }
func sOff(s Term) Term                  { return app("s_off", SBV64, s) }
func sLen(s Term) Term                  { return withSign(app("s_len", SBV64, s), true) }
func sCap(s Term) Term                  { return withSign(app("s_cap", SBV64, s), true) }
func strLen(s Term) Term                { return withSign(app("st_len", SBV64, s), true) }
func strAt(s, i Term) Term {
	return app("select", SBV8, app("st_arr", SBytes, s), bvbin("bvadd", app("st_off", SBV64, s), i))
}

// termOf converts a Val to an SMT term (addresses become opaque references).
func (fx *FX) termOf(fr *frame, st *State, v Val) Term {
	if v.Addr != nil && v.NilIf != nil {
		c := *v.NilIf
		v.NilIf = nil
		return Ite(c, T("0", SRef), fx.termOf(fr, st, v))
	}
	if v.Addr != nil {
		a := v.Addr
		switch a.Kind {
		case "box":
			return a.Obj
		case "heapobj":
			return a.Obj
		}
		// pointer into a larger object: encode injectively
		switch a.Kind {
		case "elem":
			if len(a.Path) == 0 {
				// pointers to slice elements are negative references: never nil, never an allocated object
				fx.e.W.Declare("ptr_elem", "(declare-fun ptr_elem (Int (_ BitVec 64)) Int)\n(assert (forall ((a Int) (i (_ BitVec 64))) (! (< (ptr_elem a i) 0) :pattern ((ptr_elem a i)))))")
				return app("ptr_elem", SRef, sReg(a.Obj), bvbin("bvadd", sOff(a.Obj), a.Idx))
			}
		case "heap":
			if len(a.Path) == 0 {
				fx.e.W.Declare("ptr_field", "(declare-fun ptr_field (Int Int) Int)")
				return app("ptr_field", SRef, a.Obj, T(fmt.Sprintf("%d", hashString(a.SName)%100000*100+uint32(a.Field)), SInt))
			}
		case "region":
			if len(a.Path) == 0 {
				return a.Reg
			}
		case "global":
			return T(fmt.Sprintf("%d", 500000+hashString(a.Glob.String())%100000), SRef)
		}
		fx.unsupportedf("address of kind %s escapes in %s", a.Kind, fr.fn)
	}
	if v.Tuple != nil {
		fx.unsupportedf("tuple used as value in %s", fr.fn)
	}
	if v.T.S == "" {
		fx.unsupportedf("value without term in %s", fr.fn)
	}
	return v.T
}

func (fx *FX) addrOf(fr *frame, st *State, v ssa.Value, pos token.Pos) *Addr {
	x := fr.val(v)
	if x.Addr != nil {
		if x.NilIf != nil {
			fx.safe(fr, st, "nil dereference", Not(*x.NilIf), pos)
		}
		return x.Addr
	}
	// a pointer held as a term
	pt := derefType(v.Type())
	fx.safe(fr, st, "nil dereference", Not(IdEq(x.T, T("0", SRef))), pos)
	if _, ok := pt.Underlying().(*types.Struct); ok {
		return &Addr{Kind: "heapobj", Obj: x.T, Base: pt, FTyp: pt, SName: fx.e.W.SortOf(pt)}
	}
	if arr, ok := pt.Underlying().(*types.Array); ok {
		return &Addr{Kind: "region", Reg: x.T, Base: pt, FTyp: pt, ElemSort: fx.e.W.SortOf(arr.Elem())}
	}
	return &Addr{Kind: "box", Obj: x.T, Base: pt, FTyp: pt}
}

func (fx *FX) fieldAddr(fr *frame, st *State, t *ssa.FieldAddr) *Addr {
	base := fx.addrOf(fr, st, t.X, t.Pos())
	stt := derefType(t.X.Type()).Underlying().(*types.Struct)
	ft := stt.Field(t.Field).Type()
	if base.Kind == "heapobj" && len(base.Path) == 0 {
		return &Addr{Kind: "heap", Obj: base.Obj, SName: base.SName, Field: t.Field, Base: ft, FTyp: ft}
	}
	n := *base
	n.Path = append(append([]pstep(nil), base.Path...), pstep{field: t.Field, typ: ft})
	n.FTyp = ft
	return &n
}

func (fx *FX) indexAddr(fr *frame, st *State, t *ssa.IndexAddr) *Addr {
	w := fx.e.W
	idx := Resize(fr.val(t.Index).T, 64, true)
	zero := withSign(BVLit(0, 64), true)
	switch xt := t.X.Type().Underlying().(type) {
	case *types.Slice:
		s := fx.termOf(fr, st, fr.val(t.X))
		fx.safe(fr, st, "index in range", And(Ge(idx, zero), Lt(idx, sLen(s))), t.Pos())
		return &Addr{Kind: "elem", Obj: s, Idx: idx, ElemSort: w.SortOf(xt.Elem()), Base: xt.Elem(), FTyp: xt.Elem(), Imm: fr.val(t.X).Imm}
	case *types.Pointer:
		arr := xt.Elem().Underlying().(*types.Array)
		base := fx.addrOf(fr, st, t.X, t.Pos())
		fx.safe(fr, st, "index in range", And(Ge(idx, zero), Lt(idx, withSign(BVLit(uint64(arr.Len()), 64), true))), t.Pos())
		n := *base
		n.Path = append(append([]pstep(nil), base.Path...), pstep{field: -1, idx: idx, typ: arr.Elem()})
		n.FTyp = arr.Elem()
		return &n
	}
	fx.unsupportedf("IndexAddr on %s", t.X.Type())
	return nil
}

func (fx *FX) immutableField(sname string, field int) (string, bool) {
	si := fx.e.W.structs[sname]
	if si == nil {
		return "", false
	}
	// key: typeString.field
	name := strings.TrimPrefix(sname, "S_")
	for k := range fx.e.CS.Immutable {
		if sanitize(k) == name+"_"+sanitize(si.fnames[field]) {
			fn := "F_" + name + "_" + sanitize(si.fnames[field])
			if _, declared := fx.e.CS.Funs[fn]; !declared {
				fx.e.W.Declare(fn, fmt.Sprintf("(declare-fun %s (Int) %s)", fn, si.fields[field]))
			}
			return fn, true
		}
	}
	return "", false
}

// immElems: element-array function for an immutable slice-typed field.
func (fx *FX) immElems(sname string, field int, obj Term) *immInfo {
	fn, ok := fx.immutableField(sname, field)
	if !ok {
		return nil
	}
	si := fx.e.W.structs[sname]
	sl, isSlice := si.typ.Field(field).Type().Underlying().(*types.Slice)
	if !isSlice {
		return nil
	}
	es := fx.e.W.SortOf(sl.Elem())
	fe := "FE_" + strings.TrimPrefix(fn, "F_")
	if _, declared := fx.e.CS.Funs[fe]; !declared {
		fx.e.W.Declare(fe, fmt.Sprintf("(declare-fun %s (Int) %s)", fe, SArr(SBV64, es)))
	}
	return &immInfo{fe: fe, obj: obj, es: es}
}

// typeInvFor returns the declared invariant for struct sort sname, if any.
func (fx *FX) typeInvFor(sname string) *TypeInv {
	for _, ti := range fx.e.CS.TypeInvs {
		if "S_"+sanitize(ti.Type) == sname {
			return ti
		}
	}
	return nil
}

// assumeTypeInv: object invariants hold of every object a function receives or reads (they are
// re-established by every function that writes the fields they mention: checked at its exits).
func (fx *FX) assumeTypeInv(st *State, obj Term, sname string) {
	ti := fx.typeInvFor(sname)
	if ti == nil || fx.inInv {
		return
	}
	if fx.c != nil && strings.Contains(fx.c.Opts["no-type-invariant"], ti.Type) {
		return
	}
	key := st.epoch + "|" + obj.S + "|" + sname + "|" + st.reach.S
	if fx.invAssumed[key] || fx.invBroken[obj.S+"|"+sname] {
		return
	}
	fx.invAssumed[key] = true
	typ := fx.e.lookupType(ti.Type)
	if typ == nil {
		return
	}
	fx.inInv = true
	env := fx.newEnv(nil, st)
	env.onlyNames = true
	env.names["self"] = Val{T: obj, Typ: types.NewPointer(typ)}
	g := fx.evalBool(env, ti.Expr)
	fx.inInv = false
	fx.assume(st.reach, Implies(Not(IdEq(obj, T("0", SRef))), g))
}

func (fx *FX) loadHeapField(st *State, obj Term, sname string, field int) Term {
	fx.assumeTypeInv(st, obj, sname)
	si := fx.e.W.structs[sname]
	if fn, ok := fx.immutableField(sname, field); ok {
		return app(fn, si.fields[field], obj)
	}
	key := fmt.Sprintf("H:%s.%d", sname, field)
	h := fx.comp(st, key, SArr(SInt, si.fields[field]))
	r := Select(h, obj)
	// the heap a function starts with refers only to objects allocated before it started
	if init, ok := fx.epochConsts["e0|"+key]; ok && init.S == h.S && si.fields[field] == SRef && fx.oldState != nil {
		k2 := "entryptr|" + key + "|" + obj.S
		if !fx.invAssumed[k2] {
			fx.invAssumed[k2] = true
			fx.assume(True, app("<", SBool, r, fx.comp(fx.oldState, "$alloc", SInt)))
		}
	}
	return r
}

func (fx *FX) storeHeapField(fr *frame, st *State, obj Term, sname string, field int, pt types.Type, v Term, init bool) {
	si := fx.e.W.structs[sname]
	if fn, ok := fx.immutableField(sname, field); ok {
		// initialising store on an object allocated by this function (frame analysis checks that)
		if !init {
			fx.assume(st.reach, IdEq(app(fn, si.fields[field], obj), v))
			if im := fx.immElems(sname, field, obj); im != nil {
				key := "M:" + sortID(im.es)
				mem := fx.comp(st, key, SArr(SInt, SArr(SBV64, im.es)))
				fx.assume(st.reach, IdEq(app(im.fe, SArr(SBV64, im.es), obj), Select(mem, sReg(v))))
			}
		}
		return
	}
	key := fmt.Sprintf("H:%s.%d", sname, field)
	h := fx.comp(st, key, SArr(SInt, si.fields[field]))
	fx.setComp(st, key, Store(h, obj, v))
	logComp(key)
	if fx.typeInvFor(sname) != nil {
		// the invariant of obj may be broken until the function re-establishes it
		fx.invBroken[obj.S+"|"+sname] = true
		fx.invObjs = append(fx.invObjs, [2]string{obj.S, sname})
		// the obligation at an exit only concerns paths on which the object was written
		k := obj.S + "|" + sname
		sr := st.reach
		if fx.inLoopBlock {
			sr = True // a store inside a loop: later iterations and the code after the loop see its effect
		}
		if old, ok := fx.invStoreReach[k]; ok {
			fx.invStoreReach[k] = Or(old, sr)
		} else {
			fx.invStoreReach[k] = sr
		}
	}
}

func (fx *FX) applyPath(base Term, path []pstep) Term {
	w := fx.e.W
	for _, p := range path {
		if p.field >= 0 {
			base = w.StructGet(base, p.field, p.typ)
		} else {
			e := Select(base, p.idx)
			e.Signed = isSigned(p.typ)
			base = e
		}
	}
	return base
}

func (fx *FX) updatePath(base Term, path []pstep, nv Term) Term {
	if len(path) == 0 {
		return nv
	}
	w := fx.e.W
	p := path[0]
	if p.field >= 0 {
		inner := w.StructGet(base, p.field, p.typ)
		return w.StructSet(base, p.field, fx.updatePath(inner, path[1:], nv))
	}
	inner := Select(base, p.idx)
	return Store(base, p.idx, fx.updatePath(inner, path[1:], nv))
}

func (fx *FX) loadRoot(fr *frame, st *State, a *Addr, pos token.Pos) Term {
	w := fx.e.W
	switch a.Kind {
	case "cell":
		v, ok := st.cells[a.Alloc]
		if !ok {
			v = w.Zero(a.Base)
			st.cells[a.Alloc] = v
		}
		return v
	case "const":
		return a.Obj
	case "heap":
		return fx.loadHeapField(st, a.Obj, a.SName, a.Field)
	case "heapobj":
		stt := a.Base.Underlying().(*types.Struct)
		fs := make([]Term, stt.NumFields())
		for k := range fs {
			fs[k] = fx.loadHeapField(st, a.Obj, a.SName, k)
		}
		return w.StructMake(a.SName, fs)
	case "elem":
		if a.Imm != nil {
			return Select(app(a.Imm.fe, SArr(SBV64, a.Imm.es), a.Imm.obj), bvbin("bvadd", sOff(a.Obj), a.Idx))
		}
		key := "M:" + sortID(a.ElemSort)
		mem := fx.comp(st, key, SArr(SInt, SArr(SBV64, a.ElemSort)))
		return Select(Select(mem, sReg(a.Obj)), bvbin("bvadd", sOff(a.Obj), a.Idx))
	case "region":
		key := "M:" + sortID(a.ElemSort)
		mem := fx.comp(st, key, SArr(SInt, SArr(SBV64, a.ElemSort)))
		return Select(mem, a.Reg)
	case "box":
		srt := w.SortOf(a.Base)
		key := "B:" + sortID(srt)
		box := fx.comp(st, key, SArr(SInt, srt))
		return Select(box, a.Obj)
	case "global":
		return fx.loadGlobal(fr, st, a.Glob)
	}
	fx.unsupportedf("load from address kind %s", a.Kind)
	return Term{}
}

func (fx *FX) load(fr *frame, st *State, a *Addr, pos token.Pos) Term {
	t := fx.applyPath(fx.loadRoot(fr, st, a, pos), a.Path)
	t.Signed = isSigned(a.FTyp)
	return t
}

func (fx *FX) store(fr *frame, st *State, a *Addr, v Term, pos token.Pos) {
	w := fx.e.W
	switch a.Kind {
	case "cell":
		old, ok := st.cells[a.Alloc]
		if !ok {
			old = w.Zero(a.Base)
		}
		st.cells[a.Alloc] = fx.define("c_"+a.Alloc.Name(), fx.updatePath(old, a.Path, v))
		logCell(a.Alloc)
	case "heap":
		old := fx.loadHeapField(st, a.Obj, a.SName, a.Field)
		fx.storeHeapField(fr, st, a.Obj, a.SName, a.Field, nil, fx.updatePath(old, a.Path, v), false)
	case "heapobj":
		if len(a.Path) > 0 {
			// path starts with a field step
			p := a.Path[0]
			old := fx.loadHeapField(st, a.Obj, a.SName, p.field)
			fx.storeHeapField(fr, st, a.Obj, a.SName, p.field, nil, fx.updatePath(old, a.Path[1:], v), false)
			return
		}
		stt := a.Base.Underlying().(*types.Struct)
		for k := 0; k < stt.NumFields(); k++ {
			fx.storeHeapField(fr, st, a.Obj, a.SName, k, nil, w.StructGet(v, k, stt.Field(k).Type()), false)
		}
	case "elem":
		if a.Imm != nil {
			fx.oblige(st, "frame", "frame(immutable elements)", "no store into the elements of an immutable slice field", False, pos, nil)
		}
		key := "M:" + sortID(a.ElemSort)
		mem := fx.comp(st, key, SArr(SInt, SArr(SBV64, a.ElemSort)))
		arr := Select(mem, sReg(a.Obj))
		pos := bvbin("bvadd", sOff(a.Obj), a.Idx)
		old := Select(arr, pos)
		fx.setComp(st, key, fx.define("mem", Store(mem, sReg(a.Obj), Store(arr, pos, fx.updatePath(old, a.Path, v)))))
		logComp(key)
	case "region":
		key := "M:" + sortID(a.ElemSort)
		mem := fx.comp(st, key, SArr(SInt, SArr(SBV64, a.ElemSort)))
		old := Select(mem, a.Reg)
		fx.setComp(st, key, fx.define("mem", Store(mem, a.Reg, fx.updatePath(old, a.Path, v))))
		logComp(key)
	case "box":
		srt := w.SortOf(a.Base)
		key := "B:" + sortID(srt)
		box := fx.comp(st, key, SArr(SInt, srt))
		old := Select(box, a.Obj)
		fx.setComp(st, key, Store(box, a.Obj, fx.updatePath(old, a.Path, v)))
		logComp(key)
	case "global":
		key := "GL:" + a.Glob.String()
		fx.oblige(st, "frame", "frame(global write)", "no store to package-level variable "+a.Glob.String(), False, pos, nil)
		old := fx.loadGlobal(fr, st, a.Glob)
		fx.setComp(st, key, fx.updatePath(old, a.Path, v))
		logComp(key)
	case "const":
		fx.unsupportedf("store through read-only captured variable")
	default:
		fx.unsupportedf("store to address kind %s", a.Kind)
	}
}

func (fx *FX) loadGlobal(fr *frame, st *State, g *ssa.Global) Term {
	w := fx.e.W
	gt := derefType(g.Type())
	srt := w.SortOf(gt)
	name := "GL_" + sanitize(fx.e.shortName(g.String()))
	if fx.e.InitOnlyGlobals[g] || g.Pkg == nil || !strings.HasPrefix(g.Pkg.Pkg.Path(), modPath) {
		w.Declare(name, fmt.Sprintf("(declare-const %s %s)", name, srt))
		t := T(name, srt)
		if iv, ok := fx.e.GlobalInit[g]; ok {
			if c, ok := iv.(*ssa.Const); ok {
				cv := fx.constVal(c)
				if srt == SStr {
					w.Declare(name+"=", fmt.Sprintf("(assert (= %s %s))", name, cv.T.S))
				} else {
					w.Declare(name+"=", fmt.Sprintf("(assert (= %s %s))", name, cv.T.S))
				}
			}
		}
		if srt == SIface && strings.HasPrefix(g.Name(), "Err") || srt == SIface && strings.HasPrefix(g.Name(), "err") {
			w.Declare(name+"!nil", fmt.Sprintf("(assert (not ((_ is if_nil) %s)))", name))
		}
		t.Signed = isSigned(gt)
		return t
	}
	key := "GL:" + g.String()
	return fx.comp(st, key, srt)
}

func (fx *FX) execUnOp(fr *frame, st *State, t *ssa.UnOp) bool {
	switch t.Op {
	case token.MUL:
		a := fx.addrOf(fr, st, t.X, t.Pos())
		v := fx.load(fr, st, a, t.Pos())
		rv := Val{T: fx.define(t.Name(), v), Typ: t.Type()}
		if a.Kind != "cell" && a.Kind != "const" {
			fx.assumeWF(st, rv.T, t.Type())
		}
		if a.Kind == "heap" && len(a.Path) == 0 {
			rv.Imm = fx.immElems(a.SName, a.Field, a.Obj)
		}
		if _, isSig := t.Type().Underlying().(*types.Signature); isSig && a.Kind == "cell" {
			// function values stored in local cells: keep closure identity if known
			if c, ok := fr.cellClo[a.Alloc]; ok {
				rv.Clo = c
			}
		}
		fr.vals[t] = rv
	case token.NOT:
		fr.vals[t] = Val{T: Not(fr.val(t.X).T), Typ: t.Type()}
	case token.SUB:
		x := fr.val(t.X).T
		if x.Sort == SF64 || x.Sort == SF32 {
			fr.vals[t] = Val{T: app("fp.neg", x.Sort, x), Typ: t.Type()}
		} else {
			r := app("bvneg", x.Sort, x)
			r.Signed = x.Signed
			fr.vals[t] = Val{T: r, Typ: t.Type()}
		}
	case token.XOR:
		x := fr.val(t.X).T
		r := app("bvnot", x.Sort, x)
		r.Signed = x.Signed
		fr.vals[t] = Val{T: r, Typ: t.Type()}
	default:
		fx.unsupportedf("unary %s in %s", t.Op, fr.fn)
	}
	return true
}

func (fx *FX) binop(fr *frame, st *State, op token.Token, xv, yv Val, xt types.Type, pos token.Pos) Term {
	x, y := fx.termOf(fr, st, xv), fx.termOf(fr, st, yv)
	signed := isSigned(xt)
	x.Signed = signed
	if op != token.SHL && op != token.SHR {
		y.Signed = signed
	}
	isFloat := x.Sort == SF64 || x.Sort == SF32
	switch op {
	case token.EQL, token.NEQ:
		var e Term
		switch x.Sort {
		case SStr:
			e = fx.strEq(x, y)
		case SIface:
			e = fx.ifaceEq(x, y)
		case SSlice:
			// only comparison with nil is legal
			if y.S == "nil_slice" {
				e = IdEq(sReg(x), T("0", SInt))
			} else {
				e = IdEq(sReg(y), T("0", SInt))
			}
		default:
			if at, ok := xt.Underlying().(*types.Array); ok && at.Len() <= 64 {
				// arrays are total SMT arrays: compare the N elements only
				var cs []Term
				for k := int64(0); k < at.Len(); k++ {
					cs = append(cs, IdEq(Select(x, BVLit(uint64(k), 64)), Select(y, BVLit(uint64(k), 64))))
				}
				e = And(cs...)
			} else {
				e = Eq(x, y)
			}
		}
		if op == token.NEQ {
			return Not(e)
		}
		return e
	case token.LSS:
		if x.Sort == SStr {
			return fx.strLess(x, y)
		}
		return Lt(x, y)
	case token.LEQ:
		if x.Sort == SStr {
			return Not(fx.strLess(y, x))
		}
		return Le(x, y)
	case token.GTR:
		if x.Sort == SStr {
			return fx.strLess(y, x)
		}
		return Gt(x, y)
	case token.GEQ:
		if x.Sort == SStr {
			return Not(fx.strLess(x, y))
		}
		return Ge(x, y)
	}
	if x.Sort == SStr && op == token.ADD {
		fx.e.W.Declare("str_concat", "(declare-fun str_concat (Str Str) Str)\n(assert (forall ((a Str) (b Str)) (! (= (st_len (str_concat a b)) (bvadd (st_len a) (st_len b))) :pattern ((str_concat a b)))))")
		return app("str_concat", SStr, x, y)
	}
	if isFloat {
		m := map[token.Token]string{token.ADD: "fp.add RNE", token.SUB: "fp.sub RNE", token.MUL: "fp.mul RNE", token.QUO: "fp.div RNE"}
		if f, ok := m[op]; ok {
			return app(f, x.Sort, x, y)
		}
		fx.unsupportedf("float op %s", op)
	}
	if x.Sort == SBool {
		switch op {
		case token.AND, token.LAND:
			return And(x, y)
		case token.OR, token.LOR:
			return Or(x, y)
		}
	}
	wd := bvWidth(x.Sort)
	if wd == 0 {
		fx.unsupportedf("binop %s on sort %s", op, x.Sort)
	}
	var r Term
	switch op {
	case token.ADD:
		r = bvbin("bvadd", x, y)
	case token.SUB:
		r = bvbin("bvsub", x, y)
	case token.MUL:
		r = bvbin("bvmul", x, y)
	case token.QUO, token.REM:
		fx.safe(fr, st, "division by zero", Not(Eq(y, BVLit(0, wd))), pos)
		switch {
		case op == token.QUO && signed:
			r = bvbin("bvsdiv", x, y)
		case op == token.QUO:
			r = bvbin("bvudiv", x, y)
		case signed:
			r = bvbin("bvsrem", x, y)
		default:
			r = bvbin("bvurem", x, y)
		}
	case token.AND:
		r = bvbin("bvand", x, y)
	case token.OR:
		r = bvbin("bvor", x, y)
	case token.XOR:
		r = bvbin("bvxor", x, y)
	case token.AND_NOT:
		r = bvbin("bvand", x, app("bvnot", y.Sort, y))
	case token.SHL, token.SHR:
		// shift count: unsigned or (checked) non-negative; counts >= width give 0 / sign fill
		cnt := y
		cw := bvWidth(cnt.Sort)
		if cnt.Signed {
			fx.safe(fr, st, "negative shift count", Ge(cnt, withSign(BVLit(0, cw), true)), pos)
		}
		var c2 Term
		if cw > wd {
			// saturate
			big := app("bvuge", SBool, cnt, BVLit(uint64(wd), cw))
			c2 = Ite(big, BVLit(uint64(wd), wd), Resize(withSign(cnt, false), wd, false))
		} else {
			c2 = Resize(withSign(cnt, false), wd, false)
		}
		switch {
		case op == token.SHL:
			r = bvbin("bvshl", x, c2)
		case signed:
			r = bvbin("bvashr", x, c2)
		default:
			r = bvbin("bvlshr", x, c2)
		}
	default:
		fx.unsupportedf("binop %s", op)
	}
	r.Signed = signed
	return r
}

func (fx *FX) strEq(x, y Term) Term {
	// literal on either side: expand bytewise
	for _, pair := range [][2]Term{{x, y}, {y, x}} {
		lit, other := pair[0], pair[1]
		if lit.S == "empty_str" {
			return Eq(strLen(other), BVLit(0, 64))
		}
		if strings.HasPrefix(lit.S, "strlit_") {
			var s string
			for k, v := range fx.e.W.strLits {
				if v == lit.S {
					s = k
				}
			}
			if len(s) <= 40 {
				cs := []Term{Eq(strLen(other), BVLit(uint64(len(s)), 64))}
				for j := 0; j < len(s); j++ {
					cs = append(cs, Eq(strAt(other, BVLit(uint64(j), 64)), BVLit(uint64(s[j]), 8)))
				}
				return And(cs...)
			}
		}
	}
	return app("str_eq", SBool, x, y)
}

func (fx *FX) strLess(x, y Term) Term {
	fx.e.W.Declare("str_less", "(declare-fun str_less (Str Str) Bool)")
	return app("str_less", SBool, x, y)
}

func (fx *FX) ifaceEq(x, y Term) Term {
	if y.S == "if_nil" {
		return IfaceIsNil(x)
	}
	if x.S == "if_nil" {
		return IfaceIsNil(y)
	}
	return IdEq(x, y)
}

func (fx *FX) convert(fr *frame, st *State, xv Val, from, to types.Type) Term {
	w := fx.e.W
	x := fx.termOf(fr, st, xv)
	fs, ts := w.SortOf(from), w.SortOf(to)
	fw, tw := bvWidth(fs), bvWidth(ts)
	switch {
	case fw > 0 && tw > 0:
		x.Signed = isSigned(from)
		return Resize(x, tw, isSigned(to))
	case fw > 0 && (ts == SF64 || ts == SF32):
		eb, sb := 11, 53
		if ts == SF32 {
			eb, sb = 8, 24
		}
		if isSigned(from) {
			return T(fmt.Sprintf("((_ to_fp %d %d) RNE %s)", eb, sb, x.S), ts)
		}
		return T(fmt.Sprintf("((_ to_fp_unsigned %d %d) RNE %s)", eb, sb, x.S), ts)
	case (fs == SF64 || fs == SF32) && tw > 0:
		var r Term
		if isSigned(to) {
			r = T(fmt.Sprintf("((_ fp.to_sbv %d) RTZ %s)", tw, x.S), ts)
		} else {
			r = T(fmt.Sprintf("((_ fp.to_ubv %d) RTZ %s)", tw, x.S), ts)
		}
		r.Signed = isSigned(to)
		return r
	case fs == SF32 && ts == SF64:
		return T(fmt.Sprintf("((_ to_fp 11 53) RNE %s)", x.S), SF64)
	case fs == SF64 && ts == SF32:
		return T(fmt.Sprintf("((_ to_fp 8 24) RNE %s)", x.S), SF32)
	case fs == ts && fs != SSlice && fs != SStr:
		return x
	case fs == SSlice && ts == SStr:
		// string(bytes): snapshot of the contents
		if sl, ok := from.Underlying().(*types.Slice); ok && w.SortOf(sl.Elem()) == SBV8 {
			mem := fx.comp(st, "M:bv8", SArr(SInt, SBytes))
			return app("mk_str", SStr, Select(mem, sReg(x)), sOff(x), sLen(x))
		}
	case fs == SStr && ts == SSlice:
		if sl, ok := to.Underlying().(*types.Slice); ok && w.SortOf(sl.Elem()) == SBV8 {
			r := fx.newRef(st, "bytes")
			mem := fx.comp(st, "M:bv8", SArr(SInt, SBytes))
			fx.setComp(st, "M:bv8", Store(mem, r, app("st_arr", SBytes, x)))
			logComp("M:bv8")
			return mkSlice(r, app("st_off", SBV64, x), strLen(x), strLen(x))
		}
	case fw > 0 && ts == SStr:
		// string(rune)
		if _, declared := fx.e.CS.Funs["str_of_rune"]; !declared {
			w.Declare("str_of_rune", "(declare-fun str_of_rune ((_ BitVec 32)) Str)")
		}
		x.Signed = isSigned(from)
		return app("str_of_rune", SStr, Resize(x, 32, true))
	case fs == SSlice && ts == SSlice, fs == SStr && ts == SStr:
		return x
	}
	fx.unsupportedf("conversion %s -> %s", from, to)
	return Term{}
}

func (fx *FX) execTypeAssert(fr *frame, st *State, t *ssa.TypeAssert) bool {
	w := fx.e.W
	x := fr.val(t.X).T
	var ok, val Term
	if it, isIface := t.AssertedType.Underlying().(*types.Interface); isIface {
		if it.NumMethods() == 0 {
			ok = Not(IfaceIsNil(x))
		} else {
			ok = w.IfaceImplements(x, it)
		}
		val = x
	} else {
		ok = w.IfaceIs(x, t.AssertedType)
		val = w.IfaceGet(x, t.AssertedType)
	}
	if t.CommaOk {
		okc := fx.define(t.Name()+"_ok", ok)
		zero := w.Zero(t.AssertedType)
		v := Ite(okc, val, zero)
		v.Signed = isSigned(t.AssertedType)
		fr.vals[t] = Val{Tuple: []Val{{T: fx.define(t.Name(), v), Typ: t.AssertedType}, {T: okc, Typ: types.Typ[types.Bool]}}}
		return true
	}
	fx.safe(fr, st, "type assertion", ok, t.Pos())
	fr.vals[t] = Val{T: fx.define(t.Name(), val), Typ: t.AssertedType}
	return true
}

func (fx *FX) execSlice(fr *frame, st *State, t *ssa.Slice) bool {
	w := fx.e.W
	zero := withSign(BVLit(0, 64), true)
	get := func(v ssa.Value, def Term) Term {
		if v == nil {
			return def
		}
		return Resize(fr.val(v).T, 64, true)
	}
	switch xt := t.X.Type().Underlying().(type) {
	case *types.Slice:
		s := fx.termOf(fr, st, fr.val(t.X))
		lo := get(t.Low, zero)
		hi := get(t.High, sLen(s))
		mx := get(t.Max, sCap(s))
		fx.safe(fr, st, "slice bounds", And(Le(zero, lo), Le(lo, hi), Le(hi, mx), Le(mx, sCap(s))), t.Pos())
		fr.vals[t] = Val{T: fx.define(t.Name(), mkSlice(sReg(s), bvbin("bvadd", sOff(s), lo), bvbin("bvsub", hi, lo), bvbin("bvsub", mx, lo))), Typ: t.Type(), Imm: fr.val(t.X).Imm}
	case *types.Basic: // string
		s := fr.val(t.X).T
		lo := get(t.Low, zero)
		hi := get(t.High, strLen(s))
		fx.safe(fr, st, "string slice bounds", And(Le(zero, lo), Le(lo, hi), Le(hi, strLen(s))), t.Pos())
		fr.vals[t] = Val{T: fx.define(t.Name(), app("mk_str", SStr, app("st_arr", SBytes, s), bvbin("bvadd", app("st_off", SBV64, s), lo), bvbin("bvsub", hi, lo))), Typ: t.Type()}
	case *types.Pointer: // *[N]T
		arr := xt.Elem().Underlying().(*types.Array)
		n := withSign(BVLit(uint64(arr.Len()), 64), true)
		lo := get(t.Low, zero)
		hi := get(t.High, n)
		fx.safe(fr, st, "slice bounds", And(Le(zero, lo), Le(lo, hi), Le(hi, n)), t.Pos())
		a := fx.addrOf(fr, st, t.X, t.Pos())
		var reg Term
		if a.Kind == "region" && len(a.Path) == 0 {
			reg = a.Reg
		} else {
			// snapshot: contents copied to a fresh region (sound only for read-only uses; checked)
			if !readOnlySliceUses(t) {
				fx.unsupportedf("slice of array field with non read-only uses in %s", fr.fn)
			}
			cur := fx.load(fr, st, a, t.Pos())
			reg = fx.newRef(st, "snap")
			if fr.snap == nil {
				fr.snap = map[ssa.Value][2]Term{}
			}
			fr.snap[t] = [2]Term{fx.define("snap", cur), lo}
			_ = w
		}
		fr.vals[t] = Val{T: fx.define(t.Name(), mkSlice(reg, lo, bvbin("bvsub", hi, lo), bvbin("bvsub", n, lo))), Typ: t.Type()}
	default:
		fx.unsupportedf("slice of %s", t.X.Type())
	}
	return true
}

func readOnlySliceUses(t *ssa.Slice) bool {
	for _, r := range *t.Referrers() {
		switch u := r.(type) {
		case *ssa.Convert:
		case *ssa.DebugRef:
		case *ssa.Call:
			_ = u
			return false
		default:
			return false
		}
	}
	return true
}

func (fx *FX) execLookup(fr *frame, st *State, t *ssa.Lookup) bool {
	w := fx.e.W
	if _, isMap := t.X.Type().Underlying().(*types.Map); isMap {
		mt := t.X.Type().Underlying().(*types.Map)
		m := fx.termOf(fr, st, fr.val(t.X))
		k := fx.termOf(fr, st, fr.val(t.Index))
		has, val := fx.mapRead(st, m, k, mt)
		v := Ite(has, val, w.Zero(mt.Elem()))
		v.Signed = isSigned(mt.Elem())
		if t.CommaOk {
			fr.vals[t] = Val{Tuple: []Val{{T: fx.define(t.Name(), v), Typ: mt.Elem()}, {T: fx.define(t.Name()+"_ok", has), Typ: types.Typ[types.Bool]}}}
		} else {
			fr.vals[t] = Val{T: fx.define(t.Name(), v), Typ: t.Type()}
		}
		return true
	}
	// string index
	x := fr.val(t.X).T
	idx := Resize(fr.val(t.Index).T, 64, true)
	fx.safe(fr, st, "string index in range", And(Ge(idx, withSign(BVLit(0, 64), true)), Lt(idx, strLen(x))), t.Pos())
	fr.vals[t] = Val{T: strAt(x, idx), Typ: t.Type()}
	return true
}

// Range over a string. With the specification functions utf8_w / utf8_r in scope (smt block
// `utf8`), the hidden iterator is a state component holding the byte offset of the next rune: Next
// yields (pos < len, pos, utf8_r at pos) and advances by utf8_w at pos. Without them: successive
// Next calls return offsets within the string and an unconstrained rune.
func (fx *FX) iterName(fr *frame, it ssa.Value) string {
	return "IT:" + fx.e.fnName(fr.fn) + ":" + it.Name()
}

func (fx *FX) hasUTF8() bool {
	_, ok := fx.e.CS.Funs["utf8_w"]
	_, ok2 := fx.e.CS.Funs["utf8_r"]
	return ok && ok2
}

func (fx *FX) execNext(fr *frame, st *State, t *ssa.Next) bool {
	if !t.IsString {
		fx.unsupportedf("range over map in %s", fr.fn)
	}
	s := fr.val(t.Iter).T
	if fx.hasUTF8() {
		name := fx.iterName(fr, t.Iter)
		pos := withSign(fx.comp(st, name, SBV64), true)
		arr, off := app("st_arr", SBytes, s), app("st_off", SBV64, s)
		a := bvbin("bvadd", off, pos)
		rem := withSign(bvbin("bvsub", strLen(s), pos), true)
		ok := fx.define("next_ok", Lt(pos, strLen(s)))
		w := withSign(fx.define("next_w", app("utf8_w", SBV64, arr, a, rem)), true)
		r := withSign(fx.define("next_r", app("utf8_r", SBV(32), arr, a, rem)), true)
		k := withSign(fx.define("next_k", pos), true)
		fx.setComp(st, name, Ite(ok, bvbin("bvadd", pos, w), pos))
		logComp(name)
		fr.vals[t] = Val{Tuple: []Val{{T: ok, Typ: types.Typ[types.Bool]}, {T: k, Typ: types.Typ[types.Int]}, {T: r, Typ: types.Typ[types.Rune]}}}
		return true
	}
	ok := fx.freshConst("next_ok", SBool)
	k := withSign(fx.freshConst("next_k", SBV64), true)
	r := withSign(fx.freshConst("next_r", SBV(32)), true)
	fx.assume(st.reach, Implies(ok, And(Ge(k, withSign(BVLit(0, 64), true)), Lt(k, strLen(s)))))
	fr.vals[t] = Val{Tuple: []Val{{T: ok, Typ: types.Typ[types.Bool]}, {T: k, Typ: types.Typ[types.Int]}, {T: r, Typ: types.Typ[types.Rune]}}}
	return true
}

func (fx *FX) execPanic(fr *frame, st *State, t *ssa.Panic) {
	fx.oblige(st, "safe", "safe(panic unreachable)", "explicit panic is unreachable", False, t.Pos(), nil)
}

// mapRead: maps reached through the heap have contents in state components (MH: key set, MV: values,
// ML: length); package-level maps that are only written by init are uninterpreted functions.
func (fx *FX) mapRead(st *State, m, k Term, mt *types.Map) (Term, Term) {
	w := fx.e.W
	ks, vs := w.SortOf(mt.Key()), w.SortOf(mt.Elem())
	if strings.HasPrefix(m.S, "GL_") {
		fname := "map_get_" + sortID(ks) + "_" + sortID(vs)
		hname := "map_has_" + sortID(ks)
		if _, ok := fx.e.CS.Funs[fname]; !ok {
			w.Declare(fname, fmt.Sprintf("(declare-fun %s (Int %s) %s)", fname, ks, vs))
		}
		if _, ok := fx.e.CS.Funs[hname]; !ok {
			w.Declare(hname, fmt.Sprintf("(declare-fun %s (Int %s) Bool)", hname, ks))
		}
		return app(hname, SBool, m, k), app(fname, vs, m, k)
	}
	hs := fx.comp(st, "MH:"+sortID(ks), SArr(SInt, SArr(ks, SBool)))
	vals := fx.comp(st, "MV:"+sortID(ks)+"_"+sortID(vs), SArr(SInt, SArr(ks, vs)))
	return Select(Select(hs, m), k), Select(Select(vals, m), k)
}
