package main

// Contract files: comment-only Go files (build tag verif) whose `//@` lines hold contract
// blocks. A block starts with a header line (`func NAME`, `iface NAME`, `functype NAME`,
// `extern NAME`, `ghost NAME SORT`, `smt NAME`, `axioms NAME`, `lemma NAME`, `immutable FIELD...`,
// `closure NAME`) and continues until the next header or an empty `//@` line.

import (
	"fmt"
	"os"
	"path/filepath"
	"regexp"
	"strconv"
	"strings"
)

type Clause struct {
	Kind  string // requires ensures invariant ...
	Loop  int    // for loop clauses
	Text  string
	Expr  Expr
	Props []string // properties this clause serves (default: block props)
	Name  string   // optional label
	Line  string   // file:line
}

type Contract struct {
	Kind     string // func iface functype extern closure lemma
	Name     string
	Props    []string
	Requires []*Clause
	Ensures  []*Clause
	Panics   []*Clause // ensures-on-panic
	Loops    map[int][]*Clause
	Modifies []string // state components the function may change ("*" = everything)
	HasMod   bool
	Uses     []string // axiom sets
	Pure     bool
	MayPanic bool
	Trusted  bool // extern/assumed: body not verified
	Opts     map[string]string
	File     string
	Asserts  []*Clause // lemma goals
	Absorbs  []string
	Implements []string
	ClosureInv []*Clause
	FreeReq    []*Clause // requires over free variables of a closure (established at creation)
	FrameSeams [][2]string // (component, reason): the implementation writes a component its protocol excludes; separation from the protocol user's data is assumed and listed
	CreateReq  []*Clause // checked where the closure is created, over the creator's variables; not assumed in the body
	TrustedEns []*Clause // assumed by callers, not checked in the body (seams; listed in the evidence)
	GhostEntry []*Clause
	GhostExit  []*Clause
	EnsuresPre []*Clause // checked at exits before the ghost-exit assignments
	ClosureGhost []*Clause // ghost assignments performed where the closure is created
	Decreases    []*Clause // recursion variant: strictly smaller and non-negative at every recursive call
}

type GhostVar struct {
	Name string
	Sort string
	Init string // optional initial-value term
	Env  bool   // part of "*" (havocked and framed with it); other ghosts change only when named
}

type SMTBlock struct {
	Name string
	Text string
}

type Contracts struct {
	ByName   map[string]*Contract // key: kind-less name ("db.readVarint", "iface db.tableBtree.Iter", "functype db.iterCB")
	Order    []*Contract
	Ghosts   []*GhostVar
	SMT      []*SMTBlock          // spec function definitions, always included
	Axioms   map[string]*SMTBlock // named axiom sets, included when a contract `uses` them
	AxOrder  []string
	Immutable map[string]bool // "db.tableLeaf.cells"
	Funs     map[string]*SpecFun
	Macros   map[string]*Macro
	TypeInvs []*TypeInv
	Files    []string
}

type Macro struct {
	Name   string
	Params []string
	Text   string
	Expr   Expr
}

type TypeInv struct {
	Type string
	Text string
	Expr Expr
}

type SpecFun struct {
	Name string
	Args []string
	Ret  string
}

var headerRe = regexp.MustCompile(`^(func|iface|functype|extern|ghost|smt|axioms|lemma|immutable|closure|macro|type-invariant)\b\s*(.*)$`)

func LoadContracts(repo string) (*Contracts, error) {
	cs := &Contracts{ByName: map[string]*Contract{}, Axioms: map[string]*SMTBlock{}, Immutable: map[string]bool{}, Funs: map[string]*SpecFun{}}
	var files []string
	filepath.Walk(repo, func(p string, info os.FileInfo, err error) error {
		if err == nil && !info.IsDir() && strings.HasPrefix(filepath.Base(p), "verif_contracts") && strings.HasSuffix(p, ".go") {
			files = append(files, p)
		}
		return nil
	})
	for _, f := range files {
		if err := cs.loadFile(f); err != nil {
			return nil, err
		}
	}
	cs.Files = files
	if err := cs.inherit(); err != nil {
		return nil, err
	}
	return cs, nil
}

func (cs *Contracts) loadFile(path string) error {
	data, err := os.ReadFile(path)
	if err != nil {
		return err
	}
	var cur *Contract
	var curSMT *SMTBlock
	var lastClause *Clause
	var curMacro *Macro
	var curInv *TypeInv
	flush := func() { cur = nil; curSMT = nil; lastClause = nil; curMacro = nil; curInv = nil }
	for ln, raw := range strings.Split(string(data), "\n") {
		line := strings.TrimRight(raw, " \t\r")
		if !strings.HasPrefix(strings.TrimLeft(line, " \t"), "//@") {
			flush()
			continue
		}
		body := strings.TrimPrefix(strings.TrimLeft(line, " \t"), "//@")
		if strings.TrimSpace(body) == "" {
			flush()
			continue
		}
		where := fmt.Sprintf("%s:%d", path, ln+1)
		if curSMT != nil && !headerRe.MatchString(strings.TrimSpace(body)) {
			curSMT.Text += strings.TrimPrefix(body, " ") + "\n"
			continue
		}
		tb := strings.TrimSpace(body)
		if m := headerRe.FindStringSubmatch(tb); m != nil && !strings.HasPrefix(body, "   ") {
			flush()
			kind, rest := m[1], strings.TrimSpace(m[2])
			switch kind {
			case "ghost":
				fs := strings.Fields(rest)
				if len(fs) < 2 {
					return fmt.Errorf("%s: ghost NAME SORT", where)
				}
				env := false
				if fs[len(fs)-1] == "env" && len(fs) > 2 {
					// environment ghost: state of the outside world that any call modelled with "*" may change
					env = true
					fs = fs[:len(fs)-1]
				}
				g := &GhostVar{Name: fs[0], Sort: normSort(strings.Join(fs[1:], " ")), Env: env}
				cs.Ghosts = append(cs.Ghosts, g)
			case "smt":
				curSMT = &SMTBlock{Name: rest}
				cs.SMT = append(cs.SMT, curSMT)
			case "axioms":
				curSMT = &SMTBlock{Name: rest}
				if _, dup := cs.Axioms[rest]; dup {
					return fmt.Errorf("%s: duplicate axioms %s", where, rest)
				}
				cs.Axioms[rest] = curSMT
				cs.AxOrder = append(cs.AxOrder, rest)
			case "macro":
				// macro NAME(p1, p2) = expr
				eq := strings.Index(rest, "=")
				lp := strings.Index(rest, "(")
				rp := strings.Index(rest, ")")
				if eq < 0 || lp < 0 || rp < lp || rp > eq {
					return fmt.Errorf("%s: macro NAME(params) = expr", where)
				}
				m := &Macro{Name: strings.TrimSpace(rest[:lp]), Text: strings.TrimSpace(rest[eq+1:])}
				for _, p := range strings.Split(rest[lp+1:rp], ",") {
					if p = strings.TrimSpace(p); p != "" {
						m.Params = append(m.Params, p)
					}
				}
				if cs.Macros == nil {
					cs.Macros = map[string]*Macro{}
				}
				cs.Macros[m.Name] = m
				curMacro = m
			case "type-invariant":
				// type-invariant db.Database = expr over self
				eq := strings.Index(rest, "=")
				if eq < 0 {
					return fmt.Errorf("%s: type-invariant TYPE = EXPR", where)
				}
				ti := &TypeInv{Type: strings.TrimSpace(rest[:eq]), Text: strings.TrimSpace(rest[eq+1:])}
				cs.TypeInvs = append(cs.TypeInvs, ti)
				curInv = ti
			case "immutable":
				for _, f := range strings.Fields(rest) {
					cs.Immutable[f] = true
				}
			default:
				// name may be followed by "props C01 C02"
				fs := strings.Fields(rest)
				if len(fs) == 0 {
					return fmt.Errorf("%s: missing name", where)
				}
				name := fs[0]
				c := &Contract{Kind: kind, Name: name, Loops: map[int][]*Clause{}, Opts: map[string]string{}, File: where}
				if kind == "extern" {
					c.Trusted = true
				}
				for i := 1; i < len(fs); i++ {
					if fs[i] == "props" {
						c.Props = append(c.Props, fs[i+1:]...)
						break
					}
				}
				key := name
				if kind == "iface" || kind == "functype" || kind == "lemma" {
					key = kind + " " + name
				}
				if _, dup := cs.ByName[key]; dup {
					return fmt.Errorf("%s: duplicate contract %s", where, key)
				}
				cs.ByName[key] = c
				cs.Order = append(cs.Order, c)
				cur = c
			}
			continue
		}
		if curInv != nil && strings.HasPrefix(tb, "+") {
			curInv.Text += " " + strings.TrimSpace(tb[1:])
			continue
		}
		if curMacro != nil && strings.HasPrefix(tb, "+") {
			curMacro.Text += " " + strings.TrimSpace(tb[1:])
			continue
		}
		if cur == nil {
			return fmt.Errorf("%s: clause outside a block: %q", where, tb)
		}
		if strings.HasPrefix(tb, "+") { // continuation
			if lastClause == nil {
				return fmt.Errorf("%s: continuation without clause", where)
			}
			lastClause.Text += " " + strings.TrimSpace(tb[1:])
			continue
		}
		fs := strings.SplitN(tb, " ", 2)
		kw := fs[0]
		arg := ""
		if len(fs) > 1 {
			arg = strings.TrimSpace(fs[1])
		}
		cl := &Clause{Kind: kw, Text: arg, Line: where}
		// optional label:  ensures [name] expr
		if strings.HasPrefix(arg, "[") {
			if j := strings.Index(arg, "]"); j > 0 {
				cl.Name = arg[1:j]
				cl.Text = strings.TrimSpace(arg[j+1:])
			}
		}
		lastClause = cl
		switch kw {
		case "props":
			cur.Props = append(cur.Props, strings.Fields(arg)...)
			lastClause = nil
		case "requires":
			cur.Requires = append(cur.Requires, cl)
		case "decreases":
			cur.Decreases = append(cur.Decreases, cl)
		case "ensures":
			cur.Ensures = append(cur.Ensures, cl)
		case "ensures-before-exit":
			cur.EnsuresPre = append(cur.EnsuresPre, cl)
		case "trusted-ensures":
			cur.TrustedEns = append(cur.TrustedEns, cl)
		case "ghost-entry", "ghost-exit", "closure-ghost":
			// ghost-entry NAME = EXPR
			eq := strings.Index(cl.Text, "=")
			if eq < 0 {
				return fmt.Errorf("%s: %s NAME = EXPR", where, kw)
			}
			cl.Name = strings.TrimSpace(cl.Text[:eq])
			cl.Text = strings.TrimSpace(cl.Text[eq+1:])
			if kw == "ghost-entry" {
				cur.GhostEntry = append(cur.GhostEntry, cl)
			} else if kw == "closure-ghost" {
				cur.ClosureGhost = append(cur.ClosureGhost, cl)
			} else {
				cur.GhostExit = append(cur.GhostExit, cl)
			}
		case "ensures-on-panic":
			cur.Panics = append(cur.Panics, cl)
		case "assert":
			cur.Asserts = append(cur.Asserts, cl)
		case "closure-invariant":
			cur.ClosureInv = append(cur.ClosureInv, cl)
		case "free-requires":
			cur.FreeReq = append(cur.FreeReq, cl)
		case "creation-requires":
			cur.CreateReq = append(cur.CreateReq, cl)
		case "own-errors":
			cur.Opts["own-errors"] = arg
			lastClause = nil
		case "frame-seam":
			fs2 := strings.SplitN(arg, " ", 2)
			if len(fs2) < 2 {
				return fmt.Errorf("%s: frame-seam COMPONENT reason", where)
			}
			cur.FrameSeams = append(cur.FrameSeams, [2]string{fs2[0], strings.TrimSpace(fs2[1])})
			lastClause = nil
		case "loop":
			// loop K invariant EXPR
			ps := strings.SplitN(arg, " ", 3)
			if len(ps) < 3 {
				return fmt.Errorf("%s: loop K invariant EXPR", where)
			}
			k, err := strconv.Atoi(strings.TrimSuffix(ps[0], ":"))
			if err != nil {
				return fmt.Errorf("%s: bad loop ordinal", where)
			}
			cl.Loop = k
			cl.Kind = ps[1]
			cl.Text = ps[2]
			if strings.HasPrefix(cl.Text, "[") {
				if j := strings.Index(cl.Text, "]"); j > 0 {
					cl.Name = cl.Text[1:j]
					cl.Text = strings.TrimSpace(cl.Text[j+1:])
				}
			}
			cur.Loops[k] = append(cur.Loops[k], cl)
		case "modifies":
			cur.HasMod = true
			cur.Modifies = append(cur.Modifies, strings.Fields(arg)...)
			lastClause = nil
		case "uses":
			cur.Uses = append(cur.Uses, strings.Fields(arg)...)
			lastClause = nil
		case "pure":
			cur.Pure = true
			cur.HasMod = true
			lastClause = nil
		case "may-panic":
			cur.MayPanic = true
			lastClause = nil
		case "trusted":
			cur.Trusted = true
			cur.Opts["trusted"] = arg
			lastClause = nil
		case "absorbs":
			cur.Absorbs = append(cur.Absorbs, arg)
			lastClause = nil
		case "implements":
			cur.Implements = append(cur.Implements, strings.Fields(arg)...)
			lastClause = nil
		case "opt":
			kv := strings.SplitN(arg, "=", 2)
			if len(kv) == 2 {
				cur.Opts[strings.TrimSpace(kv[0])] = strings.TrimSpace(kv[1])
			} else {
				cur.Opts[arg] = "true"
			}
			lastClause = nil
		default:
			return fmt.Errorf("%s: unknown clause %q", where, kw)
		}
	}
	return nil
}

func normSort(s string) string {
	switch s {
	case "bv64", "int", "int64", "uint64":
		return SBV64
	case "bool":
		return SBool
	case "Int", "ref":
		return SInt
	}
	return s
}

// ParseAll parses every clause expression; collects spec function signatures.
func (cs *Contracts) ParseAll() error {
	for _, b := range cs.SMT {
		cs.scanFuns(b.Text)
	}
	for _, n := range cs.AxOrder {
		cs.scanFuns(cs.Axioms[n].Text)
	}
	for _, m := range cs.Macros {
		e, err := ParseExpr(m.Text)
		if err != nil {
			return fmt.Errorf("macro %s: %v", m.Name, err)
		}
		m.Expr = e
	}
	for _, ti := range cs.TypeInvs {
		e, err := ParseExpr(ti.Text)
		if err != nil {
			return fmt.Errorf("type-invariant %s: %v", ti.Type, err)
		}
		ti.Expr = e
	}
	for _, c := range cs.Order {
		var all []*Clause
		all = append(all, c.Requires...)
		all = append(all, c.Ensures...)
		all = append(all, c.Panics...)
		all = append(all, c.Asserts...)
		all = append(all, c.ClosureInv...)
		all = append(all, c.FreeReq...)
		all = append(all, c.CreateReq...)
		all = append(all, c.TrustedEns...)
		all = append(all, c.GhostEntry...)
		all = append(all, c.GhostExit...)
		all = append(all, c.EnsuresPre...)
		all = append(all, c.ClosureGhost...)
		all = append(all, c.Decreases...)
		for _, l := range c.Loops {
			all = append(all, l...)
		}
		for _, cl := range all {
			if cl.Kind == "decreases" || cl.Kind == "invariant" || cl.Kind == "step" || cl.Kind == "exit" || cl.Kind == "entry" || cl.Kind == "requires" || cl.Kind == "ensures" || cl.Kind == "ensures-on-panic" || cl.Kind == "assert" || cl.Kind == "closure-invariant" || cl.Kind == "free-requires" || cl.Kind == "creation-requires" || cl.Kind == "trusted-ensures" || cl.Kind == "ghost-entry" || cl.Kind == "ghost-exit" || cl.Kind == "ensures-before-exit" || cl.Kind == "closure-ghost" {
				e, err := ParseExpr(cl.Text)
				if err != nil {
					return fmt.Errorf("%s: %v in %q", cl.Line, err, cl.Text)
				}
				cl.Expr = e
			}
		}
	}
	return nil
}

var funRe = regexp.MustCompile(`\((define-fun|declare-fun|define-fun-rec)\s+([^\s()]+)\s+\(`)

// scanFuns extracts the signatures of functions declared or defined in SMT text.
func (cs *Contracts) scanFuns(text string) {
	for _, loc := range funRe.FindAllStringSubmatchIndex(text, -1) {
		kind := text[loc[2]:loc[3]]
		name := text[loc[4]:loc[5]]
		pos := loc[1] - 1 // at the '(' opening the arg list
		args, end := readSexp(text, pos)
		ret, _ := readSexp(text, skipWS(text, end))
		sf := &SpecFun{Name: name, Ret: strings.TrimSpace(ret)}
		inner := strings.TrimSpace(args[1 : len(args)-1])
		p := 0
		for p < len(inner) {
			p = skipWS(inner, p)
			if p >= len(inner) {
				break
			}
			s, e := readSexp(inner, p)
			p = e
			if kind == "declare-fun" {
				sf.Args = append(sf.Args, strings.TrimSpace(s))
			} else {
				// (name sort)
				in := strings.TrimSpace(s[1 : len(s)-1])
				_, e1 := readSexp(in, 0)
				srt, _ := readSexp(in, skipWS(in, e1))
				sf.Args = append(sf.Args, strings.TrimSpace(srt))
			}
		}
		cs.Funs[name] = sf
	}
}

func skipWS(s string, p int) int {
	for p < len(s) && (s[p] == ' ' || s[p] == '\n' || s[p] == '\t' || s[p] == '\r') {
		p++
	}
	return p
}

// readSexp reads one s-expression (atom or parenthesised) starting at p.
func readSexp(s string, p int) (string, int) {
	p = skipWS(s, p)
	if p >= len(s) {
		return "", p
	}
	if s[p] != '(' {
		q := p
		for q < len(s) && s[q] != ' ' && s[q] != '\n' && s[q] != ')' && s[q] != '(' && s[q] != '\t' {
			q++
		}
		return s[p:q], q
	}
	depth := 0
	for q := p; q < len(s); q++ {
		switch s[q] {
		case '(':
			depth++
		case ')':
			depth--
			if depth == 0 {
				return s[p : q+1], q + 1
			}
		}
	}
	return s[p:], len(s)
}

// inherit copies the clauses of an iface/functype contract into the contracts that implement it.
func (cs *Contracts) inherit() error {
	for _, c := range cs.Order {
		for k := 0; k+1 < len(c.Implements); k += 2 {
			key := c.Implements[k] + " " + c.Implements[k+1]
			base := cs.ByName[key]
			if base == nil {
				return fmt.Errorf("%s: implements unknown contract %q", c.File, key)
			}
			c.Requires = append(append([]*Clause(nil), base.Requires...), c.Requires...)
			c.Ensures = append(append([]*Clause(nil), base.Ensures...), c.Ensures...)
			c.Panics = append(append([]*Clause(nil), base.Panics...), c.Panics...)
			if base.HasMod && !c.HasMod {
				c.HasMod = true
				c.Modifies = append(c.Modifies, base.Modifies...)
			}
			if base.Pure {
				c.Pure = true
			}
			for _, fsm := range c.FrameSeams {
				var nm []string
				for _, m := range c.Modifies {
					if m != "-"+fsm[0] {
						nm = append(nm, m)
					}
				}
				c.Modifies = nm
			}
			for _, o := range []string{"params", "results"} {
				if _, ok := c.Opts[o]; !ok {
					if v, ok := base.Opts[o]; ok {
						c.Opts[o] = v
					}
				}
			}
			for _, u := range base.Uses {
				c.Uses = append(c.Uses, u)
			}
			if len(c.Props) == 0 {
				c.Props = base.Props
			}
		}
	}
	return nil
}
