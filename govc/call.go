package main

import (
	"fmt"
	"go/token"
	"go/types"
	"strings"

	"golang.org/x/tools/go/ssa"
)

const modPath = "github.com/alicebob/sqlittle"

// probeCalls: generate consistency probes around every contract application
var probeCalls = false

func (e *Engine) shortName(s string) string {
	s = strings.ReplaceAll(s, modPath+"/", "")
	s = strings.ReplaceAll(s, modPath+".", "sqlittle.")
	s = strings.ReplaceAll(s, modPath, "sqlittle")
	return s
}

func (e *Engine) fnName(f *ssa.Function) string {
	return e.shortName(f.String())
}

func (e *Engine) isRepoFn(f *ssa.Function) bool {
	if f.Pkg == nil {
		if f.Parent() != nil {
			return e.isRepoFn(f.Parent())
		}
		return false
	}
	return strings.HasPrefix(f.Pkg.Pkg.Path(), modPath)
}

func (e *Engine) contractFor(f *ssa.Function) *Contract {
	if c := e.CS.ByName[e.fnName(f)]; c != nil {
		return c
	}
	return e.Rebound[e.fnName(f)]
}

// namedTypeKey gives "db.iterCB" for a named func type, "" otherwise.
func (e *Engine) namedTypeKey(t types.Type) string {
	if n, ok := t.(*types.Named); ok {
		return e.W.typeString(n)
	}
	return ""
}

func (fx *FX) execCall(fr *frame, st *State, instr ssa.Instruction, cc *ssa.CallCommon, res ssa.Value) bool {
	e := fx.e
	var args []Val
	for _, a := range cc.Args {
		args = append(args, fr.val(a))
	}
	setRes := func(vs []Val) {
		if res == nil {
			return
		}
		sig := cc.Signature()
		switch sig.Results().Len() {
		case 0:
			fr.vals[res] = Val{None: true}
		case 1:
			if len(vs) > 0 {
				fr.vals[res] = vs[0]
			}
		default:
			fr.vals[res] = Val{Tuple: vs}
		}
	}
	pos := instr.Pos()
	if cc.IsInvoke() {
		recv := fr.val(cc.Value)
		it := cc.Value.Type()
		key := "iface " + e.namedTypeKey(it) + "." + cc.Method.Name()
		if e.namedTypeKey(it) == "" {
			key = "iface " + e.W.typeString(it) + "." + cc.Method.Name()
		}
		c := e.CS.ByName[key]
		sig := cc.Method.Type().(*types.Signature)
		fx.safe(fr, st, "nil interface method call", Not(IfaceIsNil(recv.T)), pos)
		all := append([]Val{{T: fx.ifaceRef(recv.T)}}, args...)
		setRes(fx.applyContract(fr, st, c, key, nil, sig, all, pos, nil))
		return st.reach.S != "false"
	}
	switch callee := cc.Value.(type) {
	case *ssa.Builtin:
		return fx.execBuiltin(fr, st, callee, cc, args, res, pos)
	case *ssa.Function:
		setRes(fx.callFunction(fr, st, callee, args, nil, pos))
		return true
	}
	fv := fr.val(cc.Value)
	if fv.Clo != nil && fv.Clo.Fn != nil {
		setRes(fx.callFunction(fr, st, fv.Clo.Fn, args, fv.Clo.Bindings, pos))
		return true
	}
	// opaque function value: functype contract by static type
	sig := cc.Signature()
	key := ""
	if k := e.namedTypeKey(cc.Value.Type()); k != "" {
		key = "functype " + k
	}
	c := e.CS.ByName[key]
	fx.safe(fr, st, "nil function call", Not(IdEq(fv.T, T("0", SRef))), pos)
	setRes(fx.applyContract(fr, st, c, key, nil, sig, args, pos, &fv))
	return true
}

// callFunction handles a call whose target function is known.
func (fx *FX) callFunction(fr *frame, st *State, callee *ssa.Function, args []Val, bindings []Val, pos token.Pos) []Val {
	e := fx.e
	name := e.fnName(callee)
	if rs, ok := fx.intrinsic(fr, st, name, callee, args, pos); ok {
		return rs
	}
	if c := e.CS.ByName[name]; c != nil && !(c.Opts["inline"] == "true") {
		return fx.applyContract(fr, st, c, name, callee, callee.Signature, args, pos, nil, bindings...)
	}
	if e.isRepoFn(callee) && len(callee.Blocks) > 0 {
		for _, f := range fx.inlineStack {
			if f == callee {
				fx.unsupportedf("recursive call of %s without a contract", name)
			}
		}
		if len(fx.inlineStack) < 4 {
			return fx.inlineCall(fr, st, callee, args, bindings)
		}
	}
	// unknown: havoc everything, unconstrained results
	fx.noteUnknown(name)
	return fx.applyContract(fr, st, nil, name, callee, callee.Signature, args, pos, nil)
}

func (fx *FX) noteUnknown(name string) {
	for _, u := range fx.unknownCalls {
		if u == name {
			return
		}
	}
	fx.unknownCalls = append(fx.unknownCalls, name)
}

func (fx *FX) inlineCall(fr *frame, st *State, callee *ssa.Function, args []Val, bindings []Val) []Val {
	nf := &frame{fx: fx, fn: callee, vals: map[ssa.Value]Val{}, params: args, freeVals: bindings, cellClo: map[*ssa.Alloc]*Closure{}, parent: fr}
	fx.inlineStack = append(fx.inlineStack, callee)
	defer func() { fx.inlineStack = fx.inlineStack[:len(fx.inlineStack)-1] }()
	saveDefers := st.defers
	entry := st.clone()
	entry.defers = nil
	exits := fx.runBody(nf, entry)
	if len(exits) == 0 {
		st.reach = False
		n := callee.Signature.Results().Len()
		out := make([]Val, n)
		for i := range out {
			rt := callee.Signature.Results().At(i).Type()
			out[i] = Val{T: fx.e.W.Zero(rt), Typ: rt}
		}
		return out
	}
	var sts []*State
	for _, x := range exits {
		sts = append(sts, x.st)
	}
	m := fx.merge("ret_"+callee.Name(), sts)
	n := callee.Signature.Results().Len()
	out := make([]Val, n)
	for i := 0; i < n; i++ {
		// nil on some exits, one and the same address on the others: keep the address symbolic
		if len(exits) > 1 {
			var addr *Addr
			var nilReach []Term
			ok, nAddr := true, 0
			for _, x := range exits {
				r := x.results[i]
				switch {
				case r.Addr != nil && r.Addr.Kind == "elem" && r.NilIf == nil:
					addr = r.Addr
					nAddr++
				case r.Addr == nil && r.T.Sort == SRef && r.T.S == "0":
					nilReach = append(nilReach, x.st.reach)
				default:
					ok = false
				}
			}
			if ok && nAddr == 1 && len(nilReach) > 0 {
				c := fx.define("nilif_"+callee.Name(), Or(nilReach...))
				out[i] = Val{Addr: addr, Typ: callee.Signature.Results().At(i).Type(), NilIf: &c}
				continue
			}
		}
		var vs []Term
		for _, x := range exits {
			vs = append(vs, fx.termOf(nf, x.st, x.results[i]))
		}
		t := fx.mergeTerms("res_"+callee.Name(), sts, vs)
		rt := callee.Signature.Results().At(i).Type()
		t.Signed = isSigned(rt)
		out[i] = Val{T: t, Typ: rt}
		if len(exits) == 1 && exits[0].results[i].Clo != nil {
			out[i].Clo = exits[0].results[i].Clo
		}
	}
	*st = *m
	st.defers = saveDefers
	return out
}

// bindNames builds the identifier environment for a contract instance.
func (fx *FX) contractNames(c *Contract, callee *ssa.Function, sig *types.Signature, args []Val, results []Val, fnv *Val) map[string]Val {
	names := map[string]Val{}
	if fnv != nil {
		names["self"] = *fnv
	}
	for i, a := range args {
		names[fmt.Sprintf("a%d", i)] = a
	}
	if callee != nil {
		for i, p := range callee.Params {
			if i < len(args) {
				names[p.Name()] = args[i]
			}
		}
		if rec := fx.e.Recorded[fx.e.fnName(callee)]; rec != nil && len(rec.Params) == len(callee.Params) {
			for i, n := range rec.Params {
				if _, taken := names[n]; !taken && i < len(args) {
					names[n] = args[i]
				}
			}
		}
	}
	if c != nil {
		if ps, ok := c.Opts["params"]; ok {
			for i, n := range strings.Fields(ps) {
				if i < len(args) {
					names[n] = args[i]
				}
			}
		}
	}
	if results != nil {
		for i, r := range results {
			names[fmt.Sprintf("r%d", i)] = r
			if sig != nil {
				if n := sig.Results().At(i).Name(); n != "" && n != "_" {
					names[n] = r
				}
			}
		}
		if len(results) == 1 {
			names["result"] = results[0]
		}
		if n := len(results); n > 0 && sig != nil {
			if types.Identical(sig.Results().At(n-1).Type(), types.Universe.Lookup("error").Type()) {
				if _, taken := names["err"]; !taken {
					names["err"] = results[n-1]
				}
			}
		}
		if c != nil {
			if rs, ok := c.Opts["results"]; ok {
				for i, n := range strings.Fields(rs) {
					if i < len(results) {
						names[n] = results[i]
					}
				}
			}
		}
	}
	return names
}

// applyContract: check the callee's preconditions, havoc its frame, assume its postconditions.
func (fx *FX) applyContract(fr *frame, st *State, c *Contract, name string, callee *ssa.Function, sig *types.Signature, args []Val, pos token.Pos, fnv *Val, bindings ...Val) []Val {
	freeCells := map[string]Val{}
	if callee != nil && len(bindings) > 0 {
		for i, fv := range callee.FreeVars {
			if i < len(bindings) {
				b := bindings[i]
				b.Typ = fv.Type()
				freeCells[fv.Name()] = b
			}
		}
	}
	w := fx.e.W
	targs := make([]Val, len(args))
	for i, a := range args {
		if a.Addr != nil || a.T.S != "" {
			targs[i] = Val{T: fx.termOf(fr, st, a), Typ: a.Typ, Clo: a.Clo}
		} else {
			targs[i] = a
		}
	}
	if c != nil {
		env := fx.newEnv(fr, st)
		env.names = fx.contractNames(c, callee, sig, targs, nil, fnv)
		env.onlyNames = true
		env.freeCells = freeCells
		for j, cl := range c.Requires {
			g := fx.evalBool(env, cl.Expr)
			fx.oblige(st, "pre", fmt.Sprintf("call(%s).requires#%d%s", name, j+1, lbl(cl)), cl.Text, g, pos, propsOr(cl.Props, c.Props))
			st.reach = fx.define("r_pre", And(st.reach, g))
		}
		// recursion: the variant of the function under verification decreases at a call to itself
		if c == fx.c && callee != nil && callee == fx.fn && len(c.Decreases) > 0 && fx.topFrame != nil && fx.oldState != nil {
			envOld := fx.newEnv(fx.topFrame, fx.oldState)
			envOld.names = fx.contractNames(c, callee, sig, fx.topFrame.params, nil, nil)
			envOld.onlyNames = true
			for j, cl := range c.Decreases {
				nv := fx.evalExpr(env, cl.Expr).T
				ov := fx.evalExpr(envOld, cl.Expr).T
				nv.Signed, ov.Signed = true, true
				fx.oblige(st, "variant", fmt.Sprintf("call(%s).variant#%d", name, j+1), "decreases "+cl.Text, And(Lt(nv, ov), Ge(ov, fx.zeroLike(ov))), pos, propsOr(cl.Props, c.Props))
			}
		}
	}
	// panic exit: a callee that may panic (it runs user callbacks) unwinds through this function;
	// the pending defers run and the ensures-on-panic clauses must hold
	if c != nil && c.MayPanic && fr.top && fx.c != nil && len(fx.c.Panics) > 0 {
		ps := st.clone()
		ps.reach = fx.define("r_panic", st.reach)
		if !c.Pure {
			if c.HasMod {
				fx.havoc(ps, c.Modifies)
			} else {
				fx.havoc(ps, []string{"*"})
			}
		}
		fx.runDefers(fr, ps)
		env := fx.newEnv(fr, ps)
		env.old = fx.oldState
		env.goal = true
		for j, cl := range fx.c.Panics {
			g := fx.evalBool(env, cl.Expr)
			fx.oblige(ps, "post", fmt.Sprintf("ensures-on-panic#%d%s@call(%s)", j+1, lbl(cl), name), cl.Text, g, pos, propsOr(cl.Props, fx.c.Props))
		}
	}
	old := st.clone()
	defer fx.preserveLocalBoxes(fr, old, st, args)
	switch {
	case c == nil:
		fx.havocAll(st)
	case c.Pure:
		fx.havoc(st, []string{"$alloc"})
		logComp("$alloc")
	case !c.HasMod:
		fx.havocAll(st)
	default:
		fx.havoc(st, c.Modifies)
		for _, m := range c.Modifies {
			for _, k := range fx.expandCompName(m) {
				logComp(k)
			}
			if m == "*" {
				var keep []string
				for _, ex := range c.Modifies {
					if strings.HasPrefix(ex, "-") {
						keep = append(keep, fx.expandCompName(ex[1:])...)
					}
				}
				logStar(keep)
			}
			for _, g := range fx.e.CS.Ghosts {
				if g.Name == m {
					logComp("G:" + m)
				}
			}
		}
	}
	n := sig.Results().Len()
	results := make([]Val, n)
	for i := 0; i < n; i++ {
		rt := sig.Results().At(i).Type()
		t := fx.freshConst("ret_"+sanitize(shortCallName(name)), w.SortOf(rt))
		t.Signed = isSigned(rt)
		results[i] = Val{T: t, Typ: rt}
		fx.assumeWF(st, t, rt)
	}
	if c != nil {
		env := fx.newEnv(fr, st)
		env.old = old
		env.names = fx.contractNames(c, callee, sig, targs, results, fnv)
		env.onlyNames = true
		env.freeCells = freeCells
		var probe *Obligation
		if probeCalls && len(fx.inlineStack) == 0 && (len(c.Ensures) > 0 || len(c.TrustedEns) > 0) {
			// consistency probe (thorough tier): the path is satisfiable before the callee's postconditions
			// are assumed ...
			fx.probeCount++
			probe = &Obligation{Name: fmt.Sprintf("%s.consistent(before call %s)#%d", fx.name, name, fx.probeCount), Kind: "cover", Func: fx.name,
				Clause: "path reachable before the postconditions of " + name + " are assumed", Expect: "sat", Probe: "pre"}
			fx.items = append(fx.items, item{kind: "oblig", ob: probe, reach: st.reach, goal: False})
			fx.obs = append(fx.obs, probe)
		}
		for _, cl := range c.Ensures {
			fx.assume(st.reach, fx.evalBool(env, cl.Expr))
		}
		for _, cl := range c.TrustedEns {
			fx.assume(st.reach, fx.evalBool(env, cl.Expr))
			fx.usedAssumed["trusted-ensures of "+c.Kind+" "+c.Name+lbl(cl)+": "+cl.Text] = true
		}
		if c.Kind == "extern" || c.Trusted {
			fx.usedAssumed[c.Kind+" "+c.Name+" (whole contract assumed)"] = true
		}
		if probe != nil {
			// ... and still satisfiable after: otherwise the contract contradicts what the caller knows
			// and everything after the call would be proved vacuously
			post := &Obligation{Name: fmt.Sprintf("%s.consistent(after call %s)#%d", fx.name, name, fx.probeCount), Kind: "cover", Func: fx.name,
				Clause: "the postconditions of " + name + " do not contradict the caller's state", Expect: "sat", Probe: "post", ProbePre: probe}
			fx.items = append(fx.items, item{kind: "oblig", ob: post, reach: st.reach, goal: False})
			fx.obs = append(fx.obs, post)
		}
	}
	fx.assumeClosureInvariants(fr, st, args)
	return results
}

func shortCallName(s string) string {
	if i := strings.LastIndex(s, "."); i >= 0 {
		return s[i+1:]
	}
	return s
}

func propsOr(a, b []string) []string {
	if len(a) > 0 {
		return a
	}
	return b
}

// assumeWF: representation invariants of input values (slices, strings, references).
func (fx *FX) assumeWF(st *State, t Term, typ types.Type) {
	if f := fx.wf(st, t, typ, 0); f.S != "true" {
		fx.assume(st.reach, f)
	}
}

const maxLenBits = 40

func (fx *FX) wf(st *State, t Term, typ types.Type, depth int) Term {
	w := fx.e.W
	zero := withSign(BVLit(0, 64), true)
	big := withSign(BVLit(1<<maxLenBits, 64), true)
	alloc := fx.comp(st, "$alloc", SInt)
	switch u := typ.Underlying().(type) {
	case *types.Slice:
		return And(Le(zero, sLen(t)), Le(sLen(t), sCap(t)), Le(sCap(t), big),
			app("bvule", SBool, sOff(t), BVLit(1<<62, 64)),
			app(">=", SBool, sReg(t), T("0", SInt)), app("<", SBool, sReg(t), alloc),
			Implies(IdEq(sReg(t), T("0", SInt)), Eq(sCap(t), zero)))
	case *types.Basic:
		if u.Info()&types.IsString != 0 {
			return And(Le(zero, strLen(t)), Le(strLen(t), big), app("bvule", SBool, app("st_off", SBV64, t), BVLit(1<<62, 64)))
		}
	case *types.Pointer, *types.Signature, *types.Map, *types.Chan:
		return And(app(">=", SBool, t, T("0", SInt)), app("<", SBool, t, alloc))
	case *types.Struct:
		if depth > 3 {
			return True
		}
		var cs []Term
		for i := 0; i < u.NumFields(); i++ {
			cs = append(cs, fx.wf(st, w.StructGet(t, i, u.Field(i).Type()), u.Field(i).Type(), depth+1))
		}
		return And(cs...)
	case *types.Interface:
		// byte-slice and string payloads are well-formed
		var cs []Term
		for _, k := range w.ifaceOrd {
			c := w.ifaceCons[k]
			if c.payload == SSlice || c.payload == SStr {
				cs = append(cs, Implies(app("(_ is "+c.con+")", SBool, t), fx.wf(st, app(c.sel, c.payload, t), c.typ, depth+1)))
			}
		}
		return And(cs...)
	}
	return True
}

func (fx *FX) runDefers(fr *frame, st *State) {
	ds := st.defers
	st.defers = nil
	for i := len(ds) - 1; i >= 0; i-- {
		d := ds[i]
		run := st.clone()
		run.reach = fx.define("r_defer", And(st.reach, d.guard))
		skip := st.clone()
		skip.reach = fx.define("r_nodefer", And(st.reach, Not(d.guard)))
		fake := &ssa.Call{}
		fake.Call = d.call.Call
		// evaluate with the argument values captured at defer time
		fx.execDeferred(fr, run, d)
		m := fx.merge("defer", []*State{run, skip})
		*st = *m
	}
}

func (fx *FX) execDeferred(fr *frame, st *State, d deferred) {
	cc := &d.call.Call
	pos := d.call.Pos()
	if cc.IsInvoke() {
		it := cc.Value.Type()
		key := "iface " + fx.e.namedTypeKey(it) + "." + cc.Method.Name()
		c := fx.e.CS.ByName[key]
		sig := cc.Method.Type().(*types.Signature)
		fx.applyContract(fr, st, c, key, nil, sig, append([]Val{d.fnv}, d.args...), pos, nil)
		return
	}
	switch callee := cc.Value.(type) {
	case *ssa.Function:
		fx.callFunction(fr, st, callee, d.args, nil, pos)
		return
	case *ssa.Builtin:
		return
	}
	if d.fnv.Clo != nil && d.fnv.Clo.Fn != nil {
		fx.callFunction(fr, st, d.fnv.Clo.Fn, d.args, d.fnv.Clo.Bindings, pos)
		return
	}
	fx.applyContract(fr, st, nil, "deferred", nil, cc.Signature(), d.args, pos, nil)
}

// freeVarNames binds the free variables of closure fn to the current contents of the captured
// cells (as seen from the creating function).
func (fx *FX) freeVarNames(fr *frame, st *State, fn *ssa.Function, bindings []Val) map[string]Val {
	names := map[string]Val{}
	for i, fv := range fn.FreeVars {
		if i >= len(bindings) {
			break
		}
		b := bindings[i]
		pt, isPtr := fv.Type().Underlying().(*types.Pointer)
		switch {
		case b.Addr != nil:
			names[fv.Name()] = Val{T: fx.load(fr, st, b.Addr, 0), Typ: derefType(fv.Type())}
		case isPtr:
			a := fx.addrOfTerm(b.T, pt.Elem())
			names[fv.Name()] = Val{T: fx.load(fr, st, a, 0), Typ: pt.Elem()}
		default:
			names[fv.Name()] = b
		}
	}
	return names
}

func (fx *FX) closureCreated(fr *frame, st *State, t *ssa.MakeClosure, clo *Closure) {
	fn := t.Fn.(*ssa.Function)
	c := fx.e.contractFor(fn)
	if c != nil {
		for _, fsm := range c.FrameSeams {
			fx.usedAssumed["frame seam of "+c.Kind+" "+c.Name+": writes "+fsm[0]+", which the protocol it implements excludes; assumed: "+fsm[1]] = true
		}
	}
	if c == nil || (len(c.FreeReq) == 0 && len(c.CreateReq) == 0 && len(c.ClosureInv) == 0 && len(c.ClosureGhost) == 0) {
		return
	}
	env := fx.newEnv(fr, st)
	env.names = fx.freeVarNames(fr, st, fn, clo.Bindings)
	env.onlyNames = !c.Trusted // an unverified closure's creation-time requirements may mention the creator's variables
	for _, cl := range c.ClosureGhost {
		val := fx.evalExpr(env, cl.Expr)
		val = coerce(val, fx.compSorts["G:"+cl.Name], true)
		fx.setComp(st, "G:"+cl.Name, val.T)
		logComp("G:" + cl.Name)
	}
	for j, cl := range c.FreeReq {
		g := fx.evalBool(env, cl.Expr)
		fx.oblige(st, "pre", fmt.Sprintf("closure(%s).free-requires#%d", fx.e.fnName(fn), j+1), cl.Text, g, t.Pos(), propsOr(cl.Props, c.Props))
	}
	for j, cl := range c.CreateReq {
		env2 := fx.newEnv(fr, st)
		env2.names = env.names
		env2.onlyNames = false
		g := fx.evalBool(env2, cl.Expr)
		fx.oblige(st, "pre", fmt.Sprintf("closure(%s).creation-requires#%d", fx.e.fnName(fn), j+1), cl.Text, g, t.Pos(), propsOr(cl.Props, c.Props))
	}
	for j, cl := range c.ClosureInv {
		g := fx.evalBool(env, cl.Expr)
		fx.oblige(st, "inv-init", fmt.Sprintf("closure(%s).invariant#%d.init", fx.e.fnName(fn), j+1), cl.Text, g, t.Pos(), propsOr(cl.Props, c.Props))
	}
}

// assumeClosureInvariants: after a call that received closures created here, their invariants hold
// (each closure body preserves its invariant; the callee cannot name the captured cells otherwise).
func (fx *FX) assumeClosureInvariants(fr *frame, st *State, args []Val) {
	for _, a := range args {
		if a.Clo == nil || a.Clo.Fn == nil || a.Clo.Bindings == nil {
			continue
		}
		c := fx.e.contractFor(a.Clo.Fn)
		if c == nil || len(c.ClosureInv) == 0 {
			continue
		}
		env := fx.newEnv(fr, st)
		env.names = fx.freeVarNames(fr, st, a.Clo.Fn, a.Clo.Bindings)
		env.onlyNames = true
		for _, cl := range c.ClosureInv {
			fx.assume(st.reach, fx.evalBool(env, cl.Expr))
		}
	}
}

// ---------------------------------------------------------------------------------------
// builtins

func (fx *FX) execBuiltin(fr *frame, st *State, b *ssa.Builtin, cc *ssa.CallCommon, args []Val, res ssa.Value, pos token.Pos) bool {
	w := fx.e.W
	switch b.Name() {
	case "len", "cap":
		x := fx.termOf(fr, st, args[0])
		var r Term
		switch u := cc.Args[0].Type().Underlying().(type) {
		case *types.Slice:
			if b.Name() == "len" {
				r = sLen(x)
			} else {
				r = sCap(x)
			}
		case *types.Basic:
			r = strLen(x)
		case *types.Array:
			r = withSign(BVLit(uint64(u.Len()), 64), true)
		case *types.Pointer:
			r = withSign(BVLit(uint64(u.Elem().Underlying().(*types.Array).Len()), 64), true)
		case *types.Map:
			if strings.HasPrefix(x.S, "GL_") {
				w.Declare("map_len", "(declare-fun map_len (Int) (_ BitVec 64))")
				r = withSign(app("map_len", SBV64, x), true)
			} else {
				ns := fx.comp(st, "ML:"+sortID(w.SortOf(u.Key())), SArr(SInt, SBV64))
				r = withSign(Select(ns, x), true)
			}
		default:
			fx.unsupportedf("len of %s", cc.Args[0].Type())
		}
		fr.vals[res] = Val{T: r, Typ: types.Typ[types.Int]}
		return true
	case "append":
		fr.vals[res] = Val{T: fx.doAppend(fr, st, cc, args, pos), Typ: res.Type()}
		return true
	case "copy":
		dst := fx.termOf(fr, st, args[0])
		src := fx.termOf(fr, st, args[1])
		var srcLen, srcArr, srcOff Term
		es := SBV8
		if sl, ok := cc.Args[0].Type().Underlying().(*types.Slice); ok {
			es = w.SortOf(sl.Elem())
		}
		key := "M:" + sortID(es)
		mem := fx.comp(st, key, SArr(SInt, SArr(SBV64, es)))
		if src.Sort == SStr {
			srcLen, srcArr, srcOff = strLen(src), app("st_arr", SBytes, src), app("st_off", SBV64, src)
		} else {
			srcLen, srcArr, srcOff = sLen(src), Select(mem, sReg(src)), sOff(src)
		}
		n := fx.define("copy_n", Ite(Lt(srcLen, sLen(dst)), srcLen, sLen(dst)))
		n.Signed = true
		fx.declareArrayCopy(es)
		na := app("acopy_"+sortID(es), SArr(SBV64, es), Select(mem, sReg(dst)), sOff(dst), srcArr, srcOff, n)
		fx.setComp(st, key, Store(mem, sReg(dst), na))
		logComp(key)
		if res != nil {
			fr.vals[res] = Val{T: n, Typ: types.Typ[types.Int]}
		}
		return true
	case "panic":
		fx.oblige(st, "safe", "safe(panic unreachable)", "explicit panic is unreachable", False, pos, nil)
		st.reach = False
		return false
	case "print", "println":
		return true
	case "delete":
		fx.havocAll(st)
		return true
	case "recover":
		fr.vals[res] = Val{T: T("if_nil", SIface), Typ: res.Type()}
		return true
	case "min", "max":
		x, y := args[0].T, args[1].T
		x.Signed = isSigned(args[0].Typ)
		c := Lt(x, y)
		if b.Name() == "max" {
			c = Lt(y, x)
		}
		fr.vals[res] = Val{T: Ite(c, x, y), Typ: res.Type()}
		return true
	}
	fx.unsupportedf("builtin %s", b.Name())
	return false
}

func (fx *FX) declareArrayCopy(es string) {
	id := sortID(es)
	arr := SArr(SBV64, es)
	fx.e.W.Declare("acopy_"+id, fmt.Sprintf(`(declare-fun acopy_%s (%s (_ BitVec 64) %s (_ BitVec 64) (_ BitVec 64)) %s)
(assert (forall ((d %s) (do (_ BitVec 64)) (s %s) (so (_ BitVec 64)) (n (_ BitVec 64)) (j (_ BitVec 64)))
  (! (= (select (acopy_%s d do s so n) j) (ite (and (bvule do j) (bvult (bvsub j do) n)) (select s (bvadd so (bvsub j do))) (select d j)))
     :pattern ((select (acopy_%s d do s so n) j)))))`, id, arr, arr, arr, arr, arr, id, id))
}

// append: either in place (capacity suffices; the shared backing array is written) or into a
// fresh region that carries a copy of the old contents at the same offsets.
func (fx *FX) doAppend(fr *frame, st *State, cc *ssa.CallCommon, args []Val, pos token.Pos) Term {
	w := fx.e.W
	s := fx.termOf(fr, st, args[0])
	sl := cc.Args[0].Type().Underlying().(*types.Slice)
	es := w.SortOf(sl.Elem())
	key := "M:" + sortID(es)
	mem := fx.comp(st, key, SArr(SInt, SArr(SBV64, es)))
	x := fx.termOf(fr, st, args[1])
	var addLen, srcArr, srcOff Term
	if x.Sort == SStr {
		addLen, srcArr, srcOff = strLen(x), app("st_arr", SBytes, x), app("st_off", SBV64, x)
	} else {
		addLen, srcArr, srcOff = sLen(x), Select(mem, sReg(x)), sOff(x)
	}
	oldArr := Select(mem, sReg(s))
	newLen := fx.define("app_len", bvbin("bvadd", sLen(s), addLen))
	newLen.Signed = true
	fits := fx.define("app_fits", Le(newLen, sCap(s)))
	fresh := fx.newRef(st, "app")
	// single-element append is the common case: vararg slice built by the compiler as a 1-element array
	var newArr Term
	single := false
	if sl2, ok := cc.Args[1].(*ssa.Slice); ok && sl2.Low == nil && sl2.High == nil {
		if al, ok := sl2.X.(*ssa.Alloc); ok {
			if at, ok := derefType(al.Type()).Underlying().(*types.Array); ok && at.Len() == 1 {
				single = true
			}
		}
	}
	if single {
		newArr = Store(oldArr, bvbin("bvadd", sOff(s), sLen(s)), Select(srcArr, srcOff))
	} else {
		fx.declareArrayCopy(es)
		newArr = app("acopy_"+sortID(es), SArr(SBV64, es), oldArr, bvbin("bvadd", sOff(s), sLen(s)), srcArr, srcOff, addLen)
	}
	newArr = fx.define("app_arr", newArr)
	reg := fx.define("app_reg", Ite(fits, sReg(s), fresh))
	newCap := withSign(fx.freshConst("app_cap", SBV64), true)
	fx.assume(st.reach, And(Le(newLen, newCap), Le(newCap, withSign(BVLit(1<<maxLenBits+1<<20, 64), true)), Implies(fits, Eq(newCap, sCap(s)))))
	fx.setComp(st, key, fx.define("mem", Store(mem, reg, newArr)))
	logComp(key)
	// nil slice appended with nothing stays nil: region 0 only if fresh not used; ignore (len 0)
	return fx.define("app", mkSlice(reg, sOff(s), newLen, newCap))
}

// preserveLocalBoxes: captured-variable cells that belong to the calling function (allocated by it,
// or its own free variables) and are not captured by a closure handed to the callee cannot be
// changed by the call.
func (fx *FX) preserveLocalBoxes(fr *frame, old, st *State, args []Val) {
	passed := map[string]bool{}
	for _, a := range args {
		if a.Clo != nil {
			for _, b := range a.Clo.Bindings {
				if b.Addr == nil && b.T.S != "" {
					passed[b.T.S] = true
				}
			}
		}
	}
	var refs []Val
	// the cells of this frame and of every frame it is inlined into (an extracted helper must not
	// lose what its caller knows about the caller's own cells)
	for f := fr; f != nil; f = f.parent {
		for v, val := range f.vals {
			if al, ok := v.(*ssa.Alloc); ok && val.Addr == nil && val.T.S != "" {
				if _, isStruct := derefType(al.Type()).Underlying().(*types.Struct); !isStruct {
					refs = append(refs, Val{T: val.T, Typ: derefType(al.Type())})
				}
			}
		}
		for i, fv := range f.fn.FreeVars {
			if i < len(f.freeVals) && f.freeVals[i].Addr == nil && f.freeVals[i].T.S != "" {
				if pt, ok := fv.Type().Underlying().(*types.Pointer); ok {
					if _, isStruct := pt.Elem().Underlying().(*types.Struct); !isStruct {
						refs = append(refs, Val{T: f.freeVals[i].T, Typ: pt.Elem()})
					}
				}
			}
		}
	}
	for _, r := range refs {
		if passed[r.T.S] {
			continue
		}
		srt := fx.e.W.SortOf(r.Typ)
		key := "B:" + sortID(srt)
		if fx.compSorts[key] == "" {
			continue
		}
		o := fx.comp(old, key, SArr(SInt, srt))
		n := fx.comp(st, key, SArr(SInt, srt))
		if o.S != n.S {
			fx.assume(st.reach, IdEq(Select(n, r.T), Select(o, r.T)))
		}
	}
}
