package main

import (
	"fmt"
	"go/token"
	"go/types"
	"sort"
	"strings"

	"golang.org/x/tools/go/ssa"
)

type writeLog struct {
	cells map[*ssa.Alloc]bool
	comps map[string]bool
	all   bool
	stars int            // number of havoc-everything events
	excl  map[string]int // how many of them preserved a given component
}

// logStar records a havoc-everything event that preserved the components in keep.
func logStar(keep []string) {
	for _, l := range activeLogs {
		l.all = true
		l.stars++
		if l.excl == nil {
			l.excl = map[string]int{}
		}
		for _, k := range keep {
			l.excl[k]++
		}
	}
}

var activeLogs []*writeLog

func logCell(a *ssa.Alloc) {
	for _, l := range activeLogs {
		l.cells[a] = true
	}
}
func logComp(k string) {
	for _, l := range activeLogs {
		if k == "*" {
			l.all = true
			l.stars++
		} else {
			l.comps[k] = true
		}
	}
}

type loopCtx struct {
	frameKeys []string
	phiVals map[*ssa.Phi]Term
	variant []Term
	st      *State
}

var loopCtxs = map[*ssa.BasicBlock]*loopCtx{}

// trialRun executes the loop body once, discarding everything it emits, to learn what it writes.
func (fx *FX) trialRun(fr *frame, li *loopInfo, st *State) *writeLog {
	log := &writeLog{cells: map[*ssa.Alloc]bool{}, comps: map[string]bool{}}
	n0, m0, c0 := len(fx.items), len(fx.obs), map[string]int{}
	for k, v := range fx.obCount {
		c0[k] = v
	}
	savedEpoch := map[string]Term{}
	for k, v := range fx.epochConsts {
		savedEpoch[k] = v
	}
	savedVals := map[ssa.Value]Val{}
	for k, v := range fr.vals {
		savedVals[k] = v
	}
	activeLogs = append(activeLogs, log)
	func() {
		defer func() {
			activeLogs = activeLogs[:len(activeLogs)-1]
		}()
		fx.runLoopOnce(fr, li, st.clone())
	}()
	fx.items = fx.items[:n0]
	fx.obs = fx.obs[:m0]
	fx.obCount = c0
	fx.epochConsts = savedEpoch
	fr.vals = savedVals
	return log
}

// runLoopOnce executes the blocks of one loop starting at its header (phis already bound).
func (fx *FX) runLoopOnce(fr *frame, li *loopInfo, st *State) {
	fn := fr.fn
	loops, back := findLoops(fn)
	order := topoOrder(fn, back)
	edgeOut := map[[2]int]*State{}
	for _, b := range order {
		if !li.blocks[b] {
			continue
		}
		var cur *State
		if b == li.header {
			cur = st
		} else {
			var ins []*State
			var inPreds []*ssa.BasicBlock
			for _, p := range b.Preds {
				if s, ok := edgeOut[[2]int{p.Index, b.Index}]; ok {
					ins = append(ins, s)
					inPreds = append(inPreds, p)
				}
			}
			if len(ins) == 0 {
				continue
			}
			if l2 := loops[b]; l2 != nil {
				cur = fx.enterLoop(fr, l2, b, ins, inPreds)
			} else {
				cur = fx.merge(fmt.Sprintf("tb%d", b.Index), ins)
				fx.bindPhis(fr, b, ins, inPreds, cur)
			}
		}
		for _, ins := range b.Instrs {
			if _, isPhi := ins.(*ssa.Phi); isPhi {
				continue
			}
			alive := true
			switch t := ins.(type) {
			case *ssa.If:
				c := fr.val(t.Cond).T
				s1 := cur.clone()
				s1.reach = And(cur.reach, c)
				s2 := cur.clone()
				s2.reach = And(cur.reach, Not(c))
				for k, s := range []*State{s1, s2} {
					to := b.Succs[k]
					if li.blocks[to] && !back[[2]int{b.Index, to.Index}] {
						edgeOut[[2]int{b.Index, to.Index}] = s
					}
				}
				alive = false
			case *ssa.Jump:
				to := b.Succs[0]
				if li.blocks[to] && !back[[2]int{b.Index, to.Index}] {
					edgeOut[[2]int{b.Index, to.Index}] = cur
				}
				alive = false
			case *ssa.Return:
				alive = false
			case *ssa.Panic:
				alive = false
			default:
				alive = fx.execInstr(fr, cur, ins)
			}
			if !alive {
				break
			}
		}
	}
}

func (fx *FX) loopClauses(fr *frame, li *loopInfo, kind string) []*Clause {
	if fr.c == nil {
		return nil
	}
	var out []*Clause
	for _, cl := range fr.c.Loops[li.ord] {
		if cl.Kind == kind {
			out = append(out, cl)
		}
	}
	return out
}

func (fx *FX) enterLoop(fr *frame, li *loopInfo, b *ssa.BasicBlock, ins []*State, inPreds []*ssa.BasicBlock) *State {
	entry := fx.merge(fmt.Sprintf("loop%d_entry", li.ord), ins)
	fx.bindPhis(fr, b, ins, inPreds, entry)
	label := fmt.Sprintf("loop#%d", li.ord)
	// inv-init obligations with phis = entry values
	env := fx.newEnv(fr, entry)
	fx.addLoopNames(fr, env, b)
	for j, cl := range fx.loopClauses(fr, li, "invariant") {
		g := fx.evalBool(env, cl.Expr)
		fx.oblige(entry, "inv-init", fmt.Sprintf("%s.init#%d%s", label, j+1, lbl(cl)), cl.Text, g, b.Instrs[0].Pos(), cl.Props)
	}
	// entry clauses: facts about the state in which the loop is first reached (checked here, not invariants)
	for j, cl := range fx.loopClauses(fr, li, "entry") {
		g := fx.evalBool(env, cl.Expr)
		fx.oblige(entry, "inv-init", fmt.Sprintf("%s.entry#%d%s", label, j+1, lbl(cl)), cl.Text, g, b.Instrs[0].Pos(), cl.Props)
	}
	// auto invariants for range index
	autoInv := fx.autoInvariants(fr, b)
	// what does the loop write?
	log := fx.trialRun(fr, li, entry)
	st := entry.clone()
	st.reach = fx.define(fmt.Sprintf("r_loop%d", li.ord), entry.reach)
	{
		var ks []string
		for k := range log.comps {
			ks = append(ks, k)
		}
		sort.Strings(ks)
		if log.all {
			ks = append([]string{"*"}, ks...)
			for k, n := range log.excl {
				if n == log.stars && !log.comps[k] {
					ks = append(ks, "-"+k)
				}
			}
		}
		fx.havoc(st, ks)
	}
	for a := range log.cells {
		if old, ok := st.cells[a]; ok {
			st.cells[a] = fx.freshConst("cell_"+a.Name(), old.Sort)
			logCell(a)
		}
	}
	lc := &loopCtx{phiVals: map[*ssa.Phi]Term{}, st: st}
	var first []string
	for _, instr := range b.Instrs {
		phi, ok := instr.(*ssa.Phi)
		if !ok {
			break
		}
		old := fr.vals[phi]
		t := fx.freshConst(phi.Name()+"_"+sanitize(phi.Comment), old.T.Sort)
		t.Signed = old.T.Signed
		fr.vals[phi] = Val{T: t, Typ: phi.Type()}
		lc.phiVals[phi] = t
		fx.assumeWF(st, t, phi.Type())
		if old.T.S != "" && old.T.Sort == t.Sort {
			first = append(first, "(= "+t.S+" "+old.T.S+")")
		}
	}
	// replay hint: the loop state equals the state at loop entry (first iteration), which makes a
	// counterexample's pre-state a reachable one
	for a := range log.cells {
		if o, ok := entry.cells[a]; ok {
			if n, ok := st.cells[a]; ok && n.S != o.S && n.Sort == o.Sort {
				first = append(first, "(= "+n.S+" "+o.S+")")
			}
		}
	}
	for k := range log.comps {
		if o, ok := entry.comps[k]; ok {
			if n, ok := st.comps[k]; ok && n.S != o.S && n.Sort == o.Sort {
				first = append(first, "(= "+n.S+" "+o.S+")")
			}
		}
	}
	sort.Strings(first)
	st.firstIter = append(append([]string{}, entry.firstIter...), first...)
	loopCtxs[b] = lc
	env2 := fx.newEnv(fr, st)
	fx.addLoopNames(fr, env2, b)
	for _, cl := range fx.loopClauses(fr, li, "invariant") {
		fx.assume(st.reach, fx.evalBool(env2, cl.Expr))
	}
	for _, ai := range autoInv {
		fx.assume(st.reach, ai(fr))
	}
	// string range loops: the hidden iterator stays within the string (pos starts at 0 and advances
	// by utf8_w, which never exceeds the remaining length)
	for _, ins := range b.Instrs {
		if nx, ok := ins.(*ssa.Next); ok && nx.IsString && fx.hasUTF8() {
			if sv, ok := fr.vals[nx.Iter]; ok {
				pos := withSign(fx.comp(st, fx.iterName(fr, nx.Iter), SBV64), true)
				fx.assume(st.reach, And(Ge(pos, withSign(BVLit(0, 64), true)), Le(pos, strLen(sv.T))))
			}
		}
	}
	lc.frameKeys = fx.frameKeys(log)
	for _, k := range lc.frameKeys {
		fx.assume(st.reach, fx.frameFact(st, k))
	}
	for _, cl := range fx.loopClauses(fr, li, "decreases") {
		v := fx.evalExpr(env2, cl.Expr)
		lc.variant = append(lc.variant, fx.define("variant", v.T))
	}
	return st
}

func lbl(cl *Clause) string {
	if cl.Name != "" {
		return "[" + cl.Name + "]"
	}
	return ""
}

// autoInvariants: the hidden index of a range loop is >= -1 (proved like any invariant).
func (fx *FX) autoInvariants(fr *frame, b *ssa.BasicBlock) []func(fr *frame) Term {
	var out []func(fr *frame) Term
	for _, instr := range b.Instrs {
		phi, ok := instr.(*ssa.Phi)
		if !ok {
			break
		}
		if phi.Comment == "rangeindex" {
			p := phi
			// the loop condition is (phi+1) < n for a length n computed before the loop
			var lenVal ssa.Value
			for _, in2 := range b.Instrs {
				if bo, ok := in2.(*ssa.BinOp); ok && bo.Op == token.LSS {
					if add, ok := bo.X.(*ssa.BinOp); ok && add.Op == token.ADD && add.X == ssa.Value(p) {
						lenVal = bo.Y
					}
				}
			}
			out = append(out, func(fr *frame) Term {
				v := fr.vals[p].T
				lo := Ge(v, Resize(withSign(BVLit(^uint64(0), 64), true), bvWidth(v.Sort), true))
				if lenVal != nil {
					if lv, ok := fr.vals[lenVal]; ok && lv.T.Sort == v.Sort {
						n := lv.T
						n.Signed = true
						return And(lo, Or(Lt(v, n), Eq(v, Resize(withSign(BVLit(^uint64(0), 64), true), bvWidth(v.Sort), true))))
					}
				}
				return lo
			})
		}
	}
	return out
}

func withSign(t Term, s bool) Term { t.Signed = s; return t }

func (fx *FX) closeLoop(fr *frame, li *loopInfo, from *ssa.BasicBlock, st *State) {
	b := li.header
	lc := loopCtxs[b]
	label := fmt.Sprintf("loop#%d", li.ord)
	// bind phi names to back-edge values
	saved := map[*ssa.Phi]Val{}
	predIdx := -1
	for k, p := range b.Preds {
		if p == from {
			predIdx = k
		}
	}
	newVals := map[*ssa.Phi]Val{}
	for _, instr := range b.Instrs {
		phi, ok := instr.(*ssa.Phi)
		if !ok {
			break
		}
		saved[phi] = fr.vals[phi]
		newVals[phi] = fr.val(phi.Edges[predIdx])
	}
	for phi, v := range newVals {
		nv := v
		nv.T.Signed = isSigned(phi.Type())
		fr.vals[phi] = nv
	}
	env := fx.newEnv(fr, st)
	fx.addLoopNames(fr, env, b)
	// value of "$i" at the loop header (the index just processed) for range loops
	var iPrev *Val
	for phi, v := range saved {
		if phi.Comment == "rangeindex" {
			one := BVLit(1, bvWidth(v.T.Sort))
			t := bvbin("bvadd", v.T, one)
			t.Signed = true
			iPrev = &Val{T: t, Typ: phi.Type()}
		}
	}
	for j, cl := range fx.loopClauses(fr, li, "invariant") {
		ex := cl.Expr
		if iPrev != nil {
			if split, ok := splitRangeQuant(fx.e.CS, ex); ok {
				// forall v :: .. v < $i .. ==> B  is proved as  (forall v :: .. v < $iprev .. ==> B) && B[v := $iprev];
				// this uses  v < n+1 <==> v < n || v == n  for n = $iprev, valid because $iprev is below a slice length
				ex = split
				env.names["$iprev"] = *iPrev
			}
		}
		g := fx.evalBool(env, ex)
		fx.oblige(st, "inv-keep", fmt.Sprintf("%s.keep#%d%s", label, j+1, lbl(cl)), cl.Text, g, from.Instrs[len(from.Instrs)-1].Pos(), cl.Props)
	}
	for _, ai := range fx.autoInvariants(fr, b) {
		fx.oblige(st, "inv-keep", fmt.Sprintf("%s.keep.rangeindex", label), "rangeindex >= -1", ai(fr), b.Instrs[0].Pos(), nil)
	}
	if steps := fx.loopClauses(fr, li, "step"); len(steps) > 0 {
		env.preNames = map[string]Val{}
		for phi, v := range saved {
			if phi.Comment == "rangeindex" {
				one := BVLit(1, bvWidth(v.T.Sort))
				t := bvbin("bvadd", v.T, one)
				t.Signed = true
				env.preNames["$i"] = Val{T: t, Typ: phi.Type()}
			} else if phi.Comment != "" {
				env.preNames[phi.Comment] = v
			}
		}
		env.preState = lc.st
		// names of body variables are resolved at the end of the body (the back edge), not at the header
		savedAt := env.at
		env.at = from
		defer func() { env.at = savedAt }()
		for j, cl := range steps {
			g := fx.evalBool(env, cl.Expr)
			fx.oblige(st, "inv-keep", fmt.Sprintf("%s.step#%d%s", label, j+1, lbl(cl)), cl.Text, g, from.Instrs[len(from.Instrs)-1].Pos(), cl.Props)
		}
	}
	for _, k := range lc.frameKeys {
		fx.oblige(st, "inv-keep", fmt.Sprintf("%s.keep.frame(%s)", label, k), "loop leaves pre-existing objects of "+k+" unchanged", fx.frameFact(st, k), b.Instrs[0].Pos(), nil)
	}
	for j, cl := range fx.loopClauses(fr, li, "decreases") {
		nv := fx.evalExpr(env, cl.Expr)
		old := lc.variant[j]
		old.Signed = true
		nvt := nv.T
		nvt.Signed = true
		zero := fx.zeroLike(old)
		fx.oblige(st, "variant", fmt.Sprintf("%s.variant#%d", label, j+1), "decreases "+cl.Text, And(Lt(nvt, old), Ge(old, zero)), from.Instrs[len(from.Instrs)-1].Pos(), cl.Props)
	}
	for phi, v := range saved {
		fr.vals[phi] = v
	}
}

func (fx *FX) zeroLike(t Term) Term {
	if t.Sort == SInt {
		return IntLit(0)
	}
	z := BVLit(0, bvWidth(t.Sort))
	z.Signed = t.Signed
	return z
}

// addLoopNames makes the loop's phi variables available by their source names; "$i" is the index
// about to be processed by a range loop (hidden index + 1).
func (fx *FX) addLoopNames(fr *frame, env *Env, b *ssa.BasicBlock) {
	if env.at == nil && env.fr == fr {
		env.at = b
	}
	for _, instr := range b.Instrs {
		phi, ok := instr.(*ssa.Phi)
		if !ok {
			break
		}
		v := fr.vals[phi]
		if phi.Comment == "rangeindex" {
			one := BVLit(1, bvWidth(v.T.Sort))
			t := bvbin("bvadd", v.T, one)
			t.Signed = true
			env.names["$i"] = Val{T: t, Typ: phi.Type()}
			continue
		}
		if phi.Comment != "" {
			env.names[phi.Comment] = v
		}
	}
	// "$i" in a loop that is not (or no longer) a range loop: its only integer loop variable
	if _, have := env.names["$i"]; !have {
		var cand []*ssa.Phi
		for _, instr := range b.Instrs {
			phi, ok := instr.(*ssa.Phi)
			if !ok {
				break
			}
			if bt, ok := phi.Type().Underlying().(*types.Basic); ok && bt.Info()&types.IsInteger != 0 {
				cand = append(cand, phi)
			}
		}
		if len(cand) == 1 {
			env.names["$i"] = fr.vals[cand[0]]
		}
	}
	// loop variables renamed since the contracts were written
	if rec := fx.e.Recorded[fx.e.fnName(fr.fn)]; rec != nil {
		if ord, ok := fr.loopOrd[b]; ok {
			for _, o := range rec.Loops[itoa(ord)] {
				if o.Name == "" {
					continue
				}
				if _, have := env.names[o.Name]; have {
					continue
				}
				if phi := fx.e.phiAlias(fr.fn, b, ord, o.Name); phi != nil && phi.Comment != "rangeindex" {
					env.names[o.Name] = fr.vals[phi]
				} else if v, isRange := env.names["$i"]; isRange && o.Type == "int" && o.Name != "rangeindex" {
					// the explicit index variable of a loop that became a range loop
					stillThere := false
					for _, instr := range b.Instrs {
						if p2, ok := instr.(*ssa.Phi); ok && p2.Comment == o.Name {
							stillThere = true
						}
					}
					if !stillThere {
						env.names[o.Name] = v
					}
				}
			}
		}
	}
	// "$pos": byte offset of the rune a string range loop is about to decode
	for _, instr := range b.Instrs {
		if nx, ok := instr.(*ssa.Next); ok && nx.IsString && fx.hasUTF8() && env.st != nil {
			pos := withSign(fx.comp(env.st, fx.iterName(fr, nx.Iter), SBV64), true)
			env.names["$pos"] = Val{T: pos, Typ: types.Typ[types.Int]}
		}
	}
}

// ---------------------------------------------------------------------------------------
// classification of Allocs

type allocKind int

const (
	akCell allocKind = iota
	akRegion
	akHeapObj
	akBox
)

func (fx *FX) allocKind(a *ssa.Alloc) allocKind {
	if localUse(a, a, 0) {
		return akCell
	}
	pt := a.Type().Underlying().(*types.Pointer).Elem()
	switch pt.Underlying().(type) {
	case *types.Array:
		return akRegion
	case *types.Struct:
		return akHeapObj
	}
	return akBox
}

// localUse: every use of pointer value v (derived from alloc root) keeps the address local.
func localUse(root *ssa.Alloc, v ssa.Value, depth int) bool {
	refs := v.Referrers()
	if refs == nil {
		return false
	}
	for _, r := range *refs {
		switch t := r.(type) {
		case *ssa.Store:
			if t.Val == v {
				return false
			}
		case *ssa.UnOp:
			// load
		case *ssa.DebugRef:
		case *ssa.FieldAddr:
			if !localUse(root, t, depth+1) {
				return false
			}
		case *ssa.IndexAddr:
			if !localUse(root, t, depth+1) {
				return false
			}
		case *ssa.MakeClosure:
			if v != ssa.Value(root) {
				return false
			}
			if !capturedImmutable(root, t) {
				return false
			}
		default:
			return false
		}
	}
	return true
}

// capturedImmutable: alloc a is stored at most once in its parent and never through the closure.
func capturedImmutable(a *ssa.Alloc, mc *ssa.MakeClosure) bool {
	stores := 0
	for _, r := range *a.Referrers() {
		if s, ok := r.(*ssa.Store); ok && s.Addr == ssa.Value(a) {
			stores++
		}
		if _, ok := r.(*ssa.FieldAddr); ok {
			// partial updates of a captured struct: treat as mutable
			return false
		}
		if _, ok := r.(*ssa.IndexAddr); ok {
			return false
		}
	}
	if stores > 1 {
		return false
	}
	fn := mc.Fn.(*ssa.Function)
	for i, b := range mc.Bindings {
		if b == ssa.Value(a) {
			if !freeVarReadOnly(fn.FreeVars[i]) {
				return false
			}
		}
	}
	return true
}

func freeVarReadOnly(fv *ssa.FreeVar) bool {
	for _, r := range *fv.Referrers() {
		switch t := r.(type) {
		case *ssa.UnOp:
		case *ssa.DebugRef:
		case *ssa.MakeClosure:
			fn := t.Fn.(*ssa.Function)
			for i, b := range t.Bindings {
				if b == ssa.Value(fv) {
					if !freeVarReadOnly(fn.FreeVars[i]) {
						return false
					}
				}
			}
		default:
			return false
		}
	}
	return true
}

func describeAlloc(a *ssa.Alloc) string {
	return strings.TrimSpace(a.Comment)
}

// frameKeys: components a loop writes that the function's frame clause does not allow it to change
// on pre-existing objects; an automatic invariant carries "unchanged below the entry allocation mark".
func (fx *FX) frameKeys(log *writeLog) []string {
	c := fx.c
	if c == nil || !c.HasMod || log.all || fx.oldState == nil || len(fx.inlineStack) > 0 {
		return nil
	}
	allowed := map[string]bool{"$alloc": true}
	for _, m := range c.Modifies {
		if m == "*" {
			return nil
		}
		if strings.HasPrefix(m, "-") {
			continue
		}
		for _, k := range fx.expandCompName(m) {
			allowed[k] = true
		}
	}
	var out []string
	for k := range log.comps {
		if !allowed[k] && (strings.HasPrefix(k, "M:") || strings.HasPrefix(k, "H:") || strings.HasPrefix(k, "B:")) {
			out = append(out, k)
		}
	}
	sort.Strings(out)
	return out
}

func (fx *FX) frameFact(st *State, k string) Term {
	alloc0 := fx.comp(fx.oldState, "$alloc", SInt)
	e0 := fx.comp(fx.oldState, k, fx.compSorts[k])
	e1 := fx.comp(st, k, fx.compSorts[k])
	if e0.S == e1.S {
		return True
	}
	return T(fmt.Sprintf("(forall ((q_r Int)) (=> (and (<= 0 q_r) (< q_r %s)) (= (select %s q_r) (select %s q_r))))", alloc0.S, e1.S, e0.S), SBool)
}

// expandMacros expands macro calls everywhere in e.
func expandMacros(cs *Contracts, e Expr) Expr {
	switch t := e.(type) {
	case *ECall:
		if m, ok := cs.Macros[t.Fn]; ok && len(m.Params) == len(t.Args) {
			sub := map[string]Expr{}
			for i, p := range m.Params {
				sub[p] = expandMacros(cs, t.Args[i])
			}
			return expandMacros(cs, substExpr(m.Expr, sub))
		}
		n := &ECall{Fn: t.Fn}
		for _, a := range t.Args {
			n.Args = append(n.Args, expandMacros(cs, a))
		}
		return n
	case *EUnary:
		return &EUnary{Op: t.Op, X: expandMacros(cs, t.X)}
	case *EBinary:
		return &EBinary{Op: t.Op, X: expandMacros(cs, t.X), Y: expandMacros(cs, t.Y)}
	case *EIndex:
		return &EIndex{X: expandMacros(cs, t.X), I: expandMacros(cs, t.I)}
	case *EField:
		return &EField{X: expandMacros(cs, t.X), F: t.F}
	case *EQuant:
		return &EQuant{All: t.All, Vars: t.Vars, Sorts: t.Sorts, Body: expandMacros(cs, t.Body)}
	case *ESlice:
		n := &ESlice{X: expandMacros(cs, t.X)}
		if t.Lo != nil {
			n.Lo = expandMacros(cs, t.Lo)
		}
		if t.Hi != nil {
			n.Hi = expandMacros(cs, t.Hi)
		}
		return n
	}
	return e
}

func conjuncts(e Expr) []Expr {
	if b, ok := e.(*EBinary); ok && b.Op == "&&" {
		return append(conjuncts(b.X), conjuncts(b.Y)...)
	}
	return []Expr{e}
}

func conj(es []Expr) Expr {
	if len(es) == 0 {
		return &ELit{Kind: "bool", B: true}
	}
	r := es[0]
	for _, e := range es[1:] {
		r = &EBinary{Op: "&&", X: r, Y: e}
	}
	return r
}

// splitRangeQuant rewrites top-level conjuncts of the form
//   forall v :: G && v < $i ==> B     into    (forall v :: G && v < $iprev ==> B) && (G ==> B)[v := $iprev]
func splitRangeQuant(cs *Contracts, e Expr) (Expr, bool) {
	e = expandMacros(cs, e)
	changed := false
	var out []Expr
	for _, c := range conjuncts(e) {
		q, ok := c.(*EQuant)
		if !ok || !q.All || len(q.Vars) != 1 {
			out = append(out, c)
			continue
		}
		imp, ok := q.Body.(*EBinary)
		if !ok || imp.Op != "==>" {
			out = append(out, c)
			continue
		}
		v := q.Vars[0]
		gs := conjuncts(imp.X)
		found := -1
		for i, g := range gs {
			if b, ok := g.(*EBinary); ok && b.Op == "<" {
				if x, ok := b.X.(*EIdent); ok && x.Name == v {
					if y, ok := b.Y.(*EIdent); ok && y.Name == "$i" {
						found = i
					}
				}
			}
		}
		if found < 0 {
			out = append(out, c)
			continue
		}
		changed = true
		prevGs := append([]Expr(nil), gs...)
		prevGs[found] = &EBinary{Op: "<", X: &EIdent{Name: v}, Y: &EIdent{Name: "$iprev"}}
		out = append(out, &EQuant{All: true, Vars: q.Vars, Sorts: q.Sorts, Body: &EBinary{Op: "==>", X: conj(prevGs), Y: imp.Y}})
		rest := append(append([]Expr(nil), gs[:found]...), gs[found+1:]...)
		sub := map[string]Expr{v: &EIdent{Name: "$iprev"}}
		out = append(out, substExpr(&EBinary{Op: "==>", X: conj(rest), Y: imp.Y}, sub))
	}
	return conj(out), changed
}

// addAllLoopNames exposes the loop variables of every loop (current values) to postconditions, so
// that existential witnesses can name them.
func (fx *FX) addAllLoopNames(fr *frame, env *Env) {
	for h := range fr.loopOrd {
		fx.addLoopNames(fr, env, h)
	}
}
