package main

// Syntactic frame analyses over the SSA of the repository packages. They are obligations like the
// others (named, counted, reported), decided by a scan instead of a solver.

import (
	"fmt"
	"go/token"
	"go/types"
	"sort"
	"strings"

	"golang.org/x/tools/go/ssa"
)

func (e *Engine) sortedFuncs() []*ssa.Function {
	var names []string
	for n := range e.Funcs {
		names = append(names, n)
	}
	sort.Strings(names)
	var out []*ssa.Function
	for _, n := range names {
		out = append(out, e.Funcs[n])
	}
	return out
}

// isInitFn: the package initialiser itself (closures created by it run later and are not exempt).
func isInitFn(fn *ssa.Function) bool {
	return fn.Parent() == nil && fn.Signature.Recv() == nil && (fn.Name() == "init" || strings.HasPrefix(fn.Name(), "init#"))
}

// globalRoot: the package-level variable an address or value derives from (through field/index
// addressing and loads), or nil.
func globalRoot(v ssa.Value, depth int) *ssa.Global {
	if depth > 8 {
		return nil
	}
	switch t := v.(type) {
	case *ssa.Global:
		return t
	case *ssa.FieldAddr:
		return globalRoot(t.X, depth+1)
	case *ssa.IndexAddr:
		return globalRoot(t.X, depth+1)
	case *ssa.UnOp:
		return globalRoot(t.X, depth+1)
	case *ssa.Slice:
		return globalRoot(t.X, depth+1)
	case *ssa.ChangeType:
		return globalRoot(t.X, depth+1)
	}
	return nil
}

func isRefType(t types.Type) bool {
	switch t.Underlying().(type) {
	case *types.Pointer, *types.Map, *types.Chan, *types.Slice:
		return true
	}
	return false
}

// globalFrameScan: outside init, no function of the repository writes a package-level variable,
// updates a package-level map, stores through a reference loaded from one, or hands such a
// reference to code outside the repository.
func (e *Engine) globalFrameScan(prop string) []*Obligation {
	var obs []*Obligation
	for _, fn := range e.sortedFuncs() {
		if isInitFn(fn) || len(fn.Blocks) == 0 {
			continue
		}
		if fn.Pkg != nil && strings.HasSuffix(fn.Pkg.Pkg.Path(), "/ci") {
			continue
		}
		name := e.fnName(fn)
		var bad []string
		for _, b := range fn.Blocks {
			for _, ins := range b.Instrs {
				switch t := ins.(type) {
				case *ssa.Store:
					if g := globalRoot(t.Addr, 0); g != nil && e.repoGlobal(g) {
						bad = append(bad, fmt.Sprintf("store to %s at %s", e.shortName(g.String()), e.posOf(ins)))
					}
				case *ssa.MapUpdate:
					if g := globalRoot(t.Map, 0); g != nil && e.repoGlobal(g) {
						bad = append(bad, fmt.Sprintf("map update of %s at %s", e.shortName(g.String()), e.posOf(ins)))
					}
				case ssa.CallInstruction:
					cc := t.Common()
					callee := cc.StaticCallee()
					if callee != nil && e.isRepoFn(callee) {
						continue
					}
					if bi, ok := cc.Value.(*ssa.Builtin); ok {
						if bi.Name() == "delete" || bi.Name() == "copy" {
							if g := globalRoot(cc.Args[0], 0); g != nil && e.repoGlobal(g) {
								bad = append(bad, fmt.Sprintf("%s on %s at %s", bi.Name(), e.shortName(g.String()), e.posOf(ins)))
							}
						}
						if bi.Name() == "append" {
							continue
						}
						continue
					}
					args := cc.Args
					if cc.IsInvoke() {
						args = append([]ssa.Value{cc.Value}, args...)
					}
					for _, a := range args {
						if !isRefType(a.Type()) {
							continue
						}
						if g := globalRoot(a, 0); g != nil && e.repoGlobal(g) {
							bad = append(bad, fmt.Sprintf("reference from %s passed to external code at %s", e.shortName(g.String()), e.posOf(ins)))
						}
					}
				}
			}
		}
		ob := &Obligation{Name: name + ".frame(no shared mutable state)", Kind: "frame", Func: name, Props: []string{prop}, Solver: "frame-scan",
			Clause: "outside init: no store to a package-level variable, no update of a package-level map, no reference to package-level data handed to external code"}
		if len(bad) == 0 {
			ob.Status = "discharged"
		} else {
			ob.Status = "refuted"
			ob.Output = strings.Join(bad, "; ")
			ob.Clause += " -- violated: " + ob.Output
		}
		obs = append(obs, ob)
	}
	// every package-level variable is either init-only or listed
	return obs
}

func (e *Engine) repoGlobal(g *ssa.Global) bool {
	return g.Pkg != nil && strings.HasPrefix(g.Pkg.Pkg.Path(), modPath)
}

func (e *Engine) posOf(ins ssa.Instruction) string {
	p := e.Fset.Position(ins.Pos())
	if !p.IsValid() {
		if ins.Block() != nil {
			return e.fnName(ins.Parent())
		}
		return "?"
	}
	return fmt.Sprintf("%s:%d", strings.TrimPrefix(p.Filename, "/repo/"), p.Line)
}

// immutableFieldScan: fields declared `immutable` are written only on objects allocated by the
// writing function itself (constructors).
func (e *Engine) immutableFieldScan(prop string) []*Obligation {
	var obs []*Obligation
	var fields []string
	for f := range e.CS.Immutable {
		fields = append(fields, f)
	}
	sort.Strings(fields)
	for _, f := range fields {
		ob := &Obligation{Name: "immutable(" + f + ")", Kind: "frame", Props: []string{prop}, Solver: "frame-scan", Status: "discharged",
			Clause: "field " + f + " is stored only on objects allocated by the storing function"}
		i := strings.LastIndex(f, ".")
		tn, fname := f[:i], f[i+1:]
		var bad []string
		for _, fn := range e.sortedFuncs() {
			for _, b := range fn.Blocks {
				for _, ins := range b.Instrs {
					st, ok := ins.(*ssa.Store)
					if !ok {
						continue
					}
					fa, ok := st.Addr.(*ssa.FieldAddr)
					if !ok {
						// deeper paths into the field
						continue
					}
					pt := derefType(fa.X.Type())
					if e.W.typeString(pt) != tn {
						continue
					}
					if pt.Underlying().(*types.Struct).Field(fa.Field).Name() != fname {
						continue
					}
					if _, isAlloc := fa.X.(*ssa.Alloc); !isAlloc {
						bad = append(bad, e.posOf(ins))
					}
				}
			}
		}
		if len(bad) > 0 {
			ob.Status = "refuted"
			ob.Output = "stored at " + strings.Join(bad, ", ")
			ob.Clause += " -- violated: " + ob.Output
		}
		obs = append(obs, ob)
	}
	return obs
}

// determinismScan: the functions of one package compute their result from their arguments and
// package-level data that only init writes: no iteration over a map (order varies between runs), no
// goroutine, channel or select, and calls outside the repository only into the listed pure packages.
// Together with the global frame obligations (no writes to package-level state) this makes every
// call with the same argument return the same result.
func (e *Engine) determinismScan(prop, pkgSuffix string, purePkgs []string) []*Obligation {
	pure := map[string]bool{}
	for _, p := range purePkgs {
		pure[p] = true
	}
	var obs []*Obligation
	for _, fn := range e.sortedFuncs() {
		if fn.Pkg == nil || !strings.HasSuffix(fn.Pkg.Pkg.Path(), pkgSuffix) || len(fn.Blocks) == 0 || isInitFn(fn) {
			continue
		}
		name := e.fnName(fn)
		var bad []string
		for _, b := range fn.Blocks {
			for _, ins := range b.Instrs {
				switch t := ins.(type) {
				case *ssa.Range:
					if _, ok := t.X.Type().Underlying().(*types.Map); ok {
						bad = append(bad, "iteration over a map at "+e.posOf(ins))
					}
				case *ssa.Go, *ssa.Select, *ssa.Send, *ssa.MakeChan:
					bad = append(bad, fmt.Sprintf("%T at %s", ins, e.posOf(ins)))
				case *ssa.UnOp:
					if t.Op.String() == "<-" {
						bad = append(bad, "channel receive at "+e.posOf(ins))
					}
				case *ssa.Store:
					if g := globalRoot(t.Addr, 0); g != nil && e.repoGlobal(g) {
						bad = append(bad, fmt.Sprintf("store to %s at %s", e.shortName(g.String()), e.posOf(ins)))
					}
				case *ssa.MapUpdate:
					if g := globalRoot(t.Map, 0); g != nil && e.repoGlobal(g) {
						bad = append(bad, fmt.Sprintf("map update of %s at %s", e.shortName(g.String()), e.posOf(ins)))
					}
				case ssa.CallInstruction:
					cc := t.Common()
					callee := cc.StaticCallee()
					if callee == nil || e.isRepoFn(callee) || callee.Pkg == nil {
						continue
					}
					if p := callee.Pkg.Pkg.Path(); !pure[p] {
						bad = append(bad, fmt.Sprintf("call into package %s (%s) at %s", p, callee.Name(), e.posOf(ins)))
					}
				}
			}
		}
		ob := &Obligation{Name: name + ".deterministic", Kind: "frame", Func: name, Props: []string{prop}, Solver: "frame-scan", Status: "discharged",
			Clause: "no map iteration, goroutine or channel operation, no write to package-level state, external calls only into " + strings.Join(purePkgs, ", ")}
		if len(bad) > 0 {
			ob.Status = "refuted"
			ob.Output = strings.Join(bad, "; ")
			ob.Clause += " -- violated: " + ob.Output
		}
		obs = append(obs, ob)
	}
	return obs
}

// ownErrorsScan: a function whose contract says `own-errors none` (or lists the package-level error
// values it may raise itself) fails only when something it called failed: every error it returns is
// nil, the error result of a call into the repository / through an interface or closure, one of the
// listed package-level values, or a variable whose every assignment (in the function and in its
// closures) is one of these. An error built on the spot (errors.New, fmt.Errorf, a composite) or an
// unlisted package-level value is an invented failure.
func (e *Engine) ownErrorsScan(prop string) []*Obligation {
	var obs []*Obligation
	for _, c := range e.CS.Order {
		spec, ok := c.Opts["own-errors"]
		if !ok || !hasProp(c, prop) {
			continue
		}
		fn := e.Funcs[c.Name]
		ob := &Obligation{Name: c.Name + ".own-errors", Kind: "frame", Func: c.Name, Props: []string{prop}, Solver: "frame-scan",
			Clause: "every error returned is a callee's error or one of: " + spec}
		if fn == nil || len(fn.Blocks) == 0 {
			ob.Status = "undecided"
			ob.Output = "function not found"
			obs = append(obs, ob)
			continue
		}
		allowed := map[string]bool{}
		for _, a := range strings.Fields(spec) {
			allowed[a] = true
		}
		// all functions that may write the cells of fn: fn and its closures
		var family []*ssa.Function
		var walk func(f *ssa.Function)
		walk = func(f *ssa.Function) {
			family = append(family, f)
			for _, a := range f.AnonFuncs {
				walk(a)
			}
		}
		walk(fn)
		var bad []string
		seen := map[ssa.Value]bool{}
		var okVal func(v ssa.Value, at string)
		cellStores := func(name string, typ types.Type, at string) {
			// every store, anywhere in the family, to a cell (Alloc or FreeVar) of that name
			for _, f := range family {
				for _, b := range f.Blocks {
					for _, ins := range b.Instrs {
						st, ok := ins.(*ssa.Store)
						if !ok {
							continue
						}
						n := ""
						switch a := st.Addr.(type) {
						case *ssa.Alloc:
							n = a.Comment
						case *ssa.FreeVar:
							n = a.Name()
						}
						if n == name && types.Identical(derefType(st.Addr.Type()), typ) {
							okVal(st.Val, e.posOf(ins))
						}
					}
				}
			}
		}
		okVal = func(v ssa.Value, at string) {
			if seen[v] {
				return
			}
			seen[v] = true
			switch t := v.(type) {
			case *ssa.Const:
				if !t.IsNil() {
					bad = append(bad, "constant error at "+at)
				}
			case *ssa.Phi:
				for _, x := range t.Edges {
					okVal(x, at)
				}
			case *ssa.Extract:
				okVal(t.Tuple, at)
			case *ssa.Call:
				cc := t.Common()
				if cc.IsInvoke() {
					return
				}
				callee := cc.StaticCallee()
				if callee == nil {
					return // closure / function value
				}
				if e.isRepoFn(callee) {
					return
				}
				bad = append(bad, fmt.Sprintf("error made by %s at %s", callee.String(), e.posOf(t)))
			case *ssa.UnOp:
				if t.Op != token.MUL {
					bad = append(bad, "unexpected error value at "+at)
					return
				}
				switch a := t.X.(type) {
				case *ssa.Global:
					if !allowed[a.Name()] {
						bad = append(bad, fmt.Sprintf("package-level error %s at %s", a.Name(), e.posOf(t)))
					}
				case *ssa.Alloc:
					cellStores(a.Comment, derefType(a.Type()), at)
				case *ssa.FreeVar:
					cellStores(a.Name(), derefType(a.Type()), at)
				default:
					bad = append(bad, "error loaded from memory at "+e.posOf(t))
				}
			case *ssa.Parameter:
				// handed in by the caller
			default:
				bad = append(bad, fmt.Sprintf("error built on the spot (%T) at %s", v, at))
			}
		}
		for _, b := range fn.Blocks {
			for _, ins := range b.Instrs {
				ret, ok := ins.(*ssa.Return)
				if !ok {
					continue
				}
				for _, r := range ret.Results {
					if r.Type().String() == "error" {
						okVal(r, e.posOf(ins))
					}
				}
			}
		}
		if len(bad) == 0 {
			ob.Status = "discharged"
		} else {
			ob.Status = "refuted"
			ob.Output = strings.Join(bad, "; ")
			ob.Clause += " -- violated: " + ob.Output
		}
		obs = append(obs, ob)
	}
	return obs
}
