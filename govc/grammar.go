package main

// Definite-assignment obligations on the generated LALR parser (sql/parser.go) and its grammar
// (sql/parser.go.y).
//
// goyacc's driver starts every reduction with  yyVAL = yyS[yyp+1]  - for a rule with an empty
// right-hand side that is a stale slot above the stack top. A reduction whose action does not assign
// the union field its nonterminal is read through therefore reports whatever an earlier element left
// in that slot. The obligation per rule: the case of the reduction in the real parser.go assigns
// yyVAL.<field of the nonterminal>, unless the value of the nonterminal is never read, or the stale
// field is provably zero (the nonterminal is reduced at most once per parse, nothing else writes
// the field, and each Parse starts from a fresh zeroed stack).
//
// Decided by a scan, like the frame obligations; nothing here goes to a solver.

import (
	"bytes"
	"fmt"
	"go/ast"
	"go/parser"
	"go/printer"
	"go/token"
	"os"
	"os/exec"
	"path/filepath"
	"regexp"
	"sort"
	"strconv"
	"strings"
)

type yRule struct {
	lhs    string
	rhs    []string
	action string
	line   int // line of the alternative in the .y file
}

type yGrammar struct {
	types  map[string]string // nonterminal -> union field
	rules  []yRule
	start  string
	tokens map[string]bool
}

// parseYacc reads the declarations and rules sections of a goyacc grammar. It understands what the
// grammar in this repository uses: %union, %type<f>, %token, %left/%right/%nonassoc, %start, rules
// of the form  name: alt | alt ...  with optional trailing action blocks, character literals.
func parseYacc(src string) (*yGrammar, error) {
	g := &yGrammar{types: map[string]string{}, tokens: map[string]bool{}}
	parts := strings.SplitN(src, "\n%%", 3)
	if len(parts) < 2 {
		return nil, fmt.Errorf("no %%%% separator")
	}
	decl := parts[0]
	typeRe := regexp.MustCompile(`(?m)^%type\s*<(\w+)>\s*(.*)$`)
	for _, m := range typeRe.FindAllStringSubmatch(decl, -1) {
		for _, n := range strings.Fields(m[2]) {
			g.types[n] = m[1]
		}
	}
	tokRe := regexp.MustCompile(`(?m)^%(token|left|right|nonassoc)\s*(<\w+>)?\s*(.*)$`)
	for _, m := range tokRe.FindAllStringSubmatch(decl, -1) {
		for _, n := range strings.Fields(m[3]) {
			g.tokens[n] = true
		}
	}
	if m := regexp.MustCompile(`(?m)^%start\s+(\w+)`).FindStringSubmatch(decl); m != nil {
		g.start = m[1]
	}
	body := parts[1]
	line := strings.Count(decl, "\n") + 2
	// tokenizer over the rules section
	type tok struct {
		kind string // id, colon, bar, lit, action, semi
		text string
		line int
	}
	var toks []tok
	i := 0
	for i < len(body) {
		c := body[i]
		switch {
		case c == '\n':
			line++
			i++
		case c == ' ' || c == '\t' || c == '\r':
			i++
		case c == '/' && i+1 < len(body) && body[i+1] == '/':
			for i < len(body) && body[i] != '\n' {
				i++
			}
		case c == '/' && i+1 < len(body) && body[i+1] == '*':
			j := strings.Index(body[i+2:], "*/")
			if j < 0 {
				return nil, fmt.Errorf("unterminated comment at line %d", line)
			}
			line += strings.Count(body[i:i+2+j+2], "\n")
			i += 2 + j + 2
		case c == ':':
			toks = append(toks, tok{"colon", ":", line})
			i++
		case c == '|':
			toks = append(toks, tok{"bar", "|", line})
			i++
		case c == ';':
			toks = append(toks, tok{"semi", ";", line})
			i++
		case c == '\'':
			j := i + 1
			for j < len(body) && body[j] != '\'' {
				if body[j] == '\\' {
					j++
				}
				j++
			}
			toks = append(toks, tok{"lit", body[i : j+1], line})
			i = j + 1
		case c == '{':
			depth, j, l0 := 0, i, line
			for j < len(body) {
				ch := body[j]
				if ch == '\n' {
					line++
				}
				if ch == '"' || ch == '\'' || ch == '`' {
					q := ch
					j++
					for j < len(body) && body[j] != q {
						if body[j] == '\\' && q != '`' {
							j++
						}
						if body[j] == '\n' {
							line++
						}
						j++
					}
				} else if ch == '{' {
					depth++
				} else if ch == '}' {
					depth--
					if depth == 0 {
						break
					}
				}
				j++
			}
			if depth != 0 {
				return nil, fmt.Errorf("unterminated action at line %d", l0)
			}
			toks = append(toks, tok{"action", body[i : j+1], l0})
			i = j + 1
		case c == '%':
			// %prec NAME
			j := i + 1
			for j < len(body) && (body[j] == '_' || body[j] >= 'a' && body[j] <= 'z') {
				j++
			}
			word := body[i:j]
			if word != "%prec" {
				return nil, fmt.Errorf("unsupported directive %s at line %d", word, line)
			}
			toks = append(toks, tok{"prec", word, line})
			i = j
		case c == '_' || c >= 'a' && c <= 'z' || c >= 'A' && c <= 'Z':
			j := i
			for j < len(body) && (body[j] == '_' || body[j] >= 'a' && body[j] <= 'z' || body[j] >= 'A' && body[j] <= 'Z' || body[j] >= '0' && body[j] <= '9') {
				j++
			}
			toks = append(toks, tok{"id", body[i:j], line})
			i = j
		default:
			return nil, fmt.Errorf("unexpected %q at line %d of the rules section", c, line)
		}
	}
	// rules
	p := 0
	for p < len(toks) {
		if toks[p].kind != "id" || p+1 >= len(toks) || toks[p+1].kind != "colon" {
			return nil, fmt.Errorf("expected `name:` at line %d", toks[p].line)
		}
		lhs := toks[p].text
		p += 2
		cur := yRule{lhs: lhs, line: toks[p-1].line}
		started := false
		flush := func() {
			g.rules = append(g.rules, cur)
		}
		for p < len(toks) {
			t := toks[p]
			if t.kind == "id" && p+1 < len(toks) && toks[p+1].kind == "colon" {
				break
			}
			switch t.kind {
			case "id", "lit":
				if cur.action != "" {
					return nil, fmt.Errorf("mid-rule action at line %d is not supported", t.line)
				}
				if !started {
					cur.line = t.line
					started = true
				}
				cur.rhs = append(cur.rhs, t.text)
			case "action":
				if cur.action != "" {
					return nil, fmt.Errorf("two actions in one alternative at line %d", t.line)
				}
				if !started {
					cur.line = t.line
					started = true
				}
				cur.action = t.text
			case "prec":
				p++ // skip the token name
			case "bar":
				flush()
				cur = yRule{lhs: lhs, line: t.line}
				started = false
			case "semi":
			default:
				return nil, fmt.Errorf("unexpected %s at line %d", t.kind, t.line)
			}
			p++
		}
		flush()
	}
	if g.start == "" && len(g.rules) > 0 {
		g.start = g.rules[0].lhs
	}
	return g, nil
}

// parserCase is one `case N:` of the reduction switch in the generated Parse method.
type parserCase struct {
	nn      int             // number of right-hand-side symbols popped (from yyS[yypt-nn : yypt+1])
	assigns map[string]bool // union fields of yyVAL assigned on some path
	always  map[string]bool // union fields assigned by a top-level statement of the case body
}

type genParser struct {
	r1, r2 []int
	cases  map[int]*parserCase
	lexW   map[string]bool // union fields written outside the reduction switch (lexer)
	fresh  bool            // Parse(...) runs on a new parser value
}

func intTable(f *ast.File, name string) []int {
	for _, d := range f.Decls {
		gd, ok := d.(*ast.GenDecl)
		if !ok {
			continue
		}
		for _, s := range gd.Specs {
			vs, ok := s.(*ast.ValueSpec)
			if !ok || len(vs.Names) != 1 || vs.Names[0].Name != name || len(vs.Values) != 1 {
				continue
			}
			cl, ok := vs.Values[0].(*ast.CompositeLit)
			if !ok {
				continue
			}
			var out []int
			for _, e := range cl.Elts {
				neg := false
				if u, ok := e.(*ast.UnaryExpr); ok && u.Op == token.SUB {
					neg = true
					e = u.X
				}
				bl, ok := e.(*ast.BasicLit)
				if !ok {
					return nil
				}
				n, err := strconv.Atoi(bl.Value)
				if err != nil {
					return nil
				}
				if neg {
					n = -n
				}
				out = append(out, n)
			}
			return out
		}
	}
	return nil
}

func yyvalField(e ast.Expr) string {
	se, ok := e.(*ast.SelectorExpr)
	if !ok {
		return ""
	}
	if id, ok := se.X.(*ast.Ident); ok && id.Name == "yyVAL" {
		return se.Sel.Name
	}
	return ""
}

func loadGenParser(dir string) (*genParser, error) {
	fset := token.NewFileSet()
	pkgs, err := parser.ParseDir(fset, dir, func(fi os.FileInfo) bool {
		return !strings.HasSuffix(fi.Name(), "_test.go")
	}, 0)
	if err != nil {
		return nil, err
	}
	gp := &genParser{cases: map[int]*parserCase{}, lexW: map[string]bool{}}
	for _, pkg := range pkgs {
		for fname, f := range pkg.Files {
			if filepath.Base(fname) == "parser.go" {
				gp.r1 = intTable(f, "yyR1")
				gp.r2 = intTable(f, "yyR2")
			}
			ast.Inspect(f, func(n ast.Node) bool {
				switch t := n.(type) {
				case *ast.FuncDecl:
					if t.Name.Name == "yyParse" && t.Body != nil {
						// return yyNewParser().Parse(yylex)
						ast.Inspect(t.Body, func(m ast.Node) bool {
							if c, ok := m.(*ast.CallExpr); ok {
								if id, ok := c.Fun.(*ast.Ident); ok && id.Name == "yyNewParser" {
									gp.fresh = true
								}
							}
							return true
						})
					}
				case *ast.SwitchStmt:
					id, ok := t.Tag.(*ast.Ident)
					if !ok || id.Name != "yynt" {
						return true
					}
					for _, cc := range t.Body.List {
						c := cc.(*ast.CaseClause)
						if len(c.List) != 1 {
							continue
						}
						bl, ok := c.List[0].(*ast.BasicLit)
						if !ok {
							continue
						}
						nr, _ := strconv.Atoi(bl.Value)
						pc := &parserCase{nn: -1, assigns: map[string]bool{}, always: map[string]bool{}}
						gp.cases[nr] = pc
						var scanTop func(stmts []ast.Stmt)
						scanTop = func(stmts []ast.Stmt) {
							for _, s := range stmts {
								switch st := s.(type) {
								case *ast.BlockStmt:
									scanTop(st.List)
								case *ast.AssignStmt:
									for _, l := range st.Lhs {
										if fld := yyvalField(l); fld != "" {
											pc.always[fld] = true
										}
									}
								}
							}
						}
						scanTop(c.Body)
						for _, s := range c.Body {
							ast.Inspect(s, func(m ast.Node) bool {
								as, ok := m.(*ast.AssignStmt)
								if !ok {
									return true
								}
								for _, l := range as.Lhs {
									if fld := yyvalField(l); fld != "" {
										pc.assigns[fld] = true
									}
									// yyDollar = yyS[yypt-N : yypt+1]
									if id, ok := l.(*ast.Ident); ok && id.Name == "yyDollar" && len(as.Rhs) == 1 {
										if sl, ok := as.Rhs[0].(*ast.SliceExpr); ok {
											if be, ok := sl.Low.(*ast.BinaryExpr); ok && be.Op == token.SUB {
												if lit, ok := be.Y.(*ast.BasicLit); ok {
													pc.nn, _ = strconv.Atoi(lit.Value)
												}
											}
										}
									}
								}
								return true
							})
						}
					}
					return false
				case *ast.AssignStmt:
					// writes to a yySymType through the lexer's lval
					for _, l := range t.Lhs {
						if se, ok := l.(*ast.SelectorExpr); ok {
							if id, ok := se.X.(*ast.Ident); ok && id.Name == "lval" {
								gp.lexW[se.Sel.Name] = true
							}
						}
					}
				}
				return true
			})
		}
	}
	if gp.r1 == nil || gp.r2 == nil {
		return nil, fmt.Errorf("tables yyR1/yyR2 not found in %s/parser.go", dir)
	}
	return gp, nil
}

var dollarRe = regexp.MustCompile(`\$(\d+)`)

// grammarScan produces the obligations for the generated parser of package sql.
func (e *Engine) grammarScan(prop string) []*Obligation {
	dir := filepath.Join(e.RepoDir, "sql")
	mk := func(name, clause string) *Obligation {
		return &Obligation{Name: name, Kind: "frame", Func: "(*sql.yyParserImpl).Parse", Props: []string{prop}, Solver: "grammar-scan", Clause: clause, Status: "discharged",
			Pos: "sql/parser.go"}
	}
	shape := mk("sql.grammar.shape", "the rules of sql/parser.go.y and the tables yyR1/yyR2 and reduction cases of sql/parser.go describe the same grammar (rule count, left-hand sides, right-hand-side lengths)")
	fail := func(ob *Obligation, msg string) {
		ob.Status = "refuted"
		ob.Output = msg
		ob.Clause += " -- violated: " + msg
	}
	src, err := os.ReadFile(filepath.Join(dir, "parser.go.y"))
	if err != nil {
		fail(shape, err.Error())
		return []*Obligation{shape}
	}
	g, err := parseYacc(string(src))
	if err != nil {
		fail(shape, "parser.go.y: "+err.Error())
		return []*Obligation{shape}
	}
	gp, err := loadGenParser(dir)
	if err != nil {
		fail(shape, err.Error())
		return []*Obligation{shape}
	}
	obs := []*Obligation{shape}
	// shape: rule i of the grammar is rule i+1 of the tables (rule 0 is $accept)
	if len(gp.r1) != len(g.rules)+1 || len(gp.r2) != len(g.rules)+1 {
		fail(shape, fmt.Sprintf("%d rules in parser.go.y, %d in yyR1, %d in yyR2", len(g.rules), len(gp.r1)-1, len(gp.r2)-1))
		return obs
	}
	lhsNr := map[string]int{}
	nrLhs := map[int]string{}
	for i, r := range g.rules {
		n := gp.r1[i+1]
		if old, ok := lhsNr[r.lhs]; ok && old != n {
			fail(shape, fmt.Sprintf("rule %d (%s, parser.go.y:%d): left-hand side number %d, elsewhere %d", i+1, r.lhs, r.line, n, old))
			return obs
		}
		if old, ok := nrLhs[n]; ok && old != r.lhs {
			fail(shape, fmt.Sprintf("rule %d: nonterminal number %d is both %s and %s", i+1, n, old, r.lhs))
			return obs
		}
		lhsNr[r.lhs], nrLhs[n] = n, r.lhs
		if gp.r2[i+1] != len(r.rhs) {
			fail(shape, fmt.Sprintf("rule %d (%s, parser.go.y:%d): %d right-hand-side symbols, yyR2 says %d", i+1, r.lhs, r.line, len(r.rhs), gp.r2[i+1]))
			return obs
		}
		if c := gp.cases[i+1]; c != nil && c.nn != len(r.rhs) {
			fail(shape, fmt.Sprintf("rule %d (%s): case pops %d symbols, the rule has %d", i+1, r.lhs, c.nn, len(r.rhs)))
			return obs
		}
		if (r.action != "") != (gp.cases[i+1] != nil) {
			fail(shape, fmt.Sprintf("rule %d (%s, parser.go.y:%d): action in the grammar and case in parser.go do not both exist", i+1, r.lhs, r.line))
			return obs
		}
	}
	if !gp.fresh {
		fail(shape, "yyParse does not run on a new parser value (yyNewParser)")
	}
	obs = append(obs, e.generatedParserObligation(prop, dir, mk, fail))
	isNT := map[string]bool{}
	for _, r := range g.rules {
		isNT[r.lhs] = true
	}
	// which nonterminals have their value read by some action
	used := map[string]bool{}
	for _, r := range g.rules {
		for _, m := range dollarRe.FindAllStringSubmatch(r.action, -1) {
			k, _ := strconv.Atoi(m[1])
			if k >= 1 && k <= len(r.rhs) {
				used[r.rhs[k-1]] = true
			}
		}
	}
	// writers of each union field: nonterminals whose reductions assign it (per parser.go), and the lexer
	writers := map[string]map[string]bool{}
	for i, r := range g.rules {
		if c := gp.cases[i+1]; c != nil {
			for f := range c.assigns {
				if writers[f] == nil {
					writers[f] = map[string]bool{}
				}
				writers[f][r.lhs] = true
			}
		}
	}
	// single(X): at most one chain of X reductions is started per parse (so an empty rule of X is
	// reduced at most once, and before any other reduction of X). Least fixpoint from the start
	// symbol: X has exactly one parent nonterminal other than itself, that parent is single, each of
	// the parent's alternatives mentions X at most once, and X mentions itself only leftmost.
	single := map[string]bool{g.start: true}
	for changed := true; changed; {
		changed = false
		for x := range isNT {
			if single[x] {
				continue
			}
			parents := map[string]bool{}
			ok := true
			for _, r := range g.rules {
				n := 0
				for k, s := range r.rhs {
					if s == x && r.lhs == x && k == 0 {
						// left recursion X: X alpha continues the one chain its empty/base rule started
						continue
					}
					if s == x {
						n++
					}
				}
				if n > 0 {
					parents[r.lhs] = true
				}
				if n > 1 {
					ok = false
				}
			}
			if !ok || len(parents) != 1 || parents[x] {
				continue
			}
			for p := range parents {
				if single[p] {
					single[x] = true
					changed = true
				}
			}
		}
	}
	for i, r := range g.rules {
		f := g.types[r.lhs]
		if f == "" {
			continue
		}
		shapeTxt := "empty rule"
		if len(r.rhs) > 0 {
			shapeTxt = "rule " + strings.Join(r.rhs, " ")
		}
		ob := mk(fmt.Sprintf("sql.grammar.value(%s#%d)", r.lhs, altIndex(g.rules, i)),
			fmt.Sprintf("reduction %d (%s: %s, parser.go.y:%d) defines the value it reports: the case assigns yyVAL.%s", i+1, r.lhs, shapeTxt, r.line, f))
		obs = append(obs, ob)
		c := gp.cases[i+1]
		if c != nil && c.always[f] {
			continue
		}
		if !used[r.lhs] {
			ob.Clause += " [not needed: no action reads the value of " + r.lhs + "]"
			continue
		}
		if len(r.rhs) > 0 && c == nil && g.types[r.rhs[0]] == f && isNT[r.rhs[0]] {
			// default action $$ = $1 with the same field
			ob.Clause += " [default action: value of " + r.rhs[0] + "]"
			continue
		}
		var others []string
		for w := range writers[f] {
			if w != r.lhs {
				others = append(others, w)
			}
		}
		sort.Strings(others)
		if len(r.rhs) == 0 && single[r.lhs] && len(others) == 0 && !gp.lexW[f] && gp.fresh {
			ob.Clause += fmt.Sprintf(" [not needed: %s is reduced at most once per parse, only its own reductions write field %s, and every Parse starts on a zeroed stack, so the stale slot holds the zero value]", r.lhs, f)
			continue
		}
		why := "the value is the stale content of the parser stack slot"
		if c != nil && c.assigns[f] {
			why = "the assignment is conditional; on the other paths " + why
		}
		fail(ob, fmt.Sprintf("case %d of the reduction switch does not assign yyVAL.%s; %s (field also written by: %s; lexer writes it: %v; reduced at most once: %v)",
			i+1, f, why, strings.Join(others, ","), gp.lexW[f], single[r.lhs]))
	}
	return obs
}

// altIndex: ordinal of rule i among the alternatives of its nonterminal (stable obligation names).
func altIndex(rules []yRule, i int) int {
	n := 0
	for j := 0; j < i; j++ {
		if rules[j].lhs == rules[i].lhs {
			n++
		}
	}
	return n
}

// grammarFingerprint extracts from a goyacc-generated file everything that depends on the grammar:
// the numeric tables, the constants, the token names, the union type and the reduction cases. The
// driver loop itself is a fixed template that differs between goyacc versions (integer conversions)
// and is not compared.
func grammarFingerprint(path string) (map[string]string, error) {
	fset := token.NewFileSet()
	f, err := parser.ParseFile(fset, path, nil, 0) // comments dropped (//line directives)
	if err != nil {
		return nil, err
	}
	pr := func(n ast.Node) string {
		var buf bytes.Buffer
		cfg := printer.Config{Mode: printer.UseSpaces | printer.TabIndent, Tabwidth: 8}
		cfg.Fprint(&buf, fset, n)
		return strings.Join(strings.Fields(buf.String()), " ")
	}
	fp := map[string]string{}
	for _, d := range f.Decls {
		switch t := d.(type) {
		case *ast.GenDecl:
			for _, sp := range t.Specs {
				switch v := sp.(type) {
				case *ast.ValueSpec:
					for k, n := range v.Names {
						if k >= len(v.Values) {
							if t.Tok == token.CONST {
								fp["const "+n.Name] = "iota-continued"
							}
							continue
						}
						if cl, ok := v.Values[k].(*ast.CompositeLit); ok {
							var elts []string
							for _, e := range cl.Elts {
								elts = append(elts, pr(e))
							}
							fp["table "+n.Name] = strings.Join(elts, ",")
						} else if t.Tok == token.CONST {
							fp["const "+n.Name] = pr(v.Values[k])
						}
					}
				case *ast.TypeSpec:
					if v.Name.Name == "yySymType" {
						fp["type yySymType"] = pr(v.Type)
					}
				}
			}
		case *ast.FuncDecl:
			if t.Body == nil {
				continue
			}
			ast.Inspect(t.Body, func(n ast.Node) bool {
				sw, ok := n.(*ast.SwitchStmt)
				if !ok {
					return true
				}
				if id, ok := sw.Tag.(*ast.Ident); !ok || id.Name != "yynt" {
					return true
				}
				for _, cc := range sw.Body.List {
					c := cc.(*ast.CaseClause)
					key := "case default"
					if len(c.List) == 1 {
						key = "case " + pr(c.List[0])
					}
					var body []string
					for _, st := range c.Body {
						body = append(body, pr(st))
					}
					fp[key] = strings.Join(body, " ; ")
				}
				return false
			})
		}
	}
	return fp, nil
}

// generatedParserObligation: sql/parser.go is what goyacc generates from sql/parser.go.y (goyacc
// built from the x/tools source kept under /verif/tools/goyacc), up to comments, layout and the
// element types of the tables. This ties the grammar the other obligations reason about to the
// tables and reduction code that actually run.
func (e *Engine) generatedParserObligation(prop, dir string, mk func(string, string) *Obligation, fail func(*Obligation, string)) *Obligation {
	ob := mk("sql.grammar.generated", "the grammar-dependent parts of sql/parser.go (parse tables, constants, token names, union type, every reduction case) equal what goyacc generates from sql/parser.go.y")
	exe, err := os.Executable()
	goyacc := ""
	if err == nil {
		goyacc = filepath.Join(filepath.Dir(exe), "goyacc")
	}
	if _, err := os.Stat(goyacc); err != nil {
		ob.Status = "undecided"
		ob.Output = "goyacc binary not found next to govc (run /verif/setup.sh)"
		return ob
	}
	tmp, err := os.MkdirTemp("", "govc-goyacc")
	if err != nil {
		ob.Status = "undecided"
		ob.Output = err.Error()
		return ob
	}
	defer os.RemoveAll(tmp)
	src, _ := os.ReadFile(filepath.Join(dir, "parser.go.y"))
	os.WriteFile(filepath.Join(tmp, "parser.go.y"), src, 0o644)
	cmd := exec.Command(goyacc, "-o", "parser.go", "-v", "y.output", "parser.go.y")
	cmd.Dir = tmp
	if out, err := cmd.CombinedOutput(); err != nil {
		fail(ob, "goyacc failed on parser.go.y: "+strings.TrimSpace(string(out)))
		return ob
	}
	want, err1 := grammarFingerprint(filepath.Join(tmp, "parser.go"))
	have, err2 := grammarFingerprint(filepath.Join(dir, "parser.go"))
	if err1 != nil || err2 != nil {
		fail(ob, fmt.Sprintf("cannot parse: %v %v", err1, err2))
		return ob
	}
	var diffs []string
	for k, w := range want {
		h, ok := have[k]
		switch {
		case !ok:
			diffs = append(diffs, k+": missing in the repository's parser.go")
		case h != w:
			a, b := w, h
			if len(a) > 160 {
				a = a[:160] + "..."
			}
			if len(b) > 160 {
				b = b[:160] + "..."
			}
			diffs = append(diffs, fmt.Sprintf("%s: generated `%s`, repository `%s`", k, a, b))
		}
	}
	for k := range have {
		if _, ok := want[k]; !ok {
			diffs = append(diffs, k+": not produced by goyacc from parser.go.y")
		}
	}
	sort.Strings(diffs)
	if len(want) < 20 {
		diffs = append(diffs, "fingerprint of the generated file is implausibly small")
	}
	if len(diffs) > 0 {
		if len(diffs) > 6 {
			diffs = append(diffs[:6], fmt.Sprintf("... and %d more", len(diffs)-6))
		}
		fail(ob, strings.Join(diffs, "; "))
	}
	return ob
}
