package main

// Name bindings recorded on the pinned tree (/verif/bindings.json, written by `govc bindings`).
//
// Contracts live in separate files and mention parameters, loop-carried variables and a few locals
// by their source names. A refactor that only renames such a variable must not turn into an alarm:
// when a name a contract uses no longer exists in the function, it is looked up in the recorded
// bindings and mapped to the variable that now sits at the same position (same parameter index; same
// index among the loop header's phis of that type; same index among the function's named locals of
// that type). A mapping is only used when the shapes agree (same number of parameters / of phis /
// of locals of that type), so a wrong guess can at worst make a proof fail; it cannot make a false
// statement provable, because every obligation is still checked against the current code.

import (
	"encoding/json"
	"go/ast"
	"go/types"
	"os"
	"path/filepath"
	"sort"
	"strings"

	"golang.org/x/tools/go/ssa"
)

type nameType struct {
	Name string `json:"name"`
	Type string `json:"type"`
}

type fnBinding struct {
	Params []string              `json:"params"`
	Loops  map[string][]nameType `json:"loops"`  // loop ordinal -> header phis in order
	Locals []nameType            `json:"locals"` // named SSA values / address-taken variables, first-occurrence order
	// closures only: signature and captured variables, so that a contract whose closure moved into an
	// extracted helper (and therefore got another name) can be re-bound to it
	Sig      string     `json:"sig,omitempty"`
	FreeVars []nameType `json:"freevars,omitempty"`
}

type Bindings map[string]*fnBinding

func loopOrdinals(fn *ssa.Function) map[*ssa.BasicBlock]int {
	loops, _ := findLoops(fn)
	out := map[*ssa.BasicBlock]int{}
	for h, li := range loops {
		out[h] = li.ord
	}
	return out
}

func (e *Engine) bindingOf(fn *ssa.Function) *fnBinding {
	b := &fnBinding{Loops: map[string][]nameType{}}
	for _, p := range fn.Params {
		b.Params = append(b.Params, p.Name())
	}
	if fn.Parent() != nil {
		b.Sig, b.FreeVars = e.closureShape(fn)
	}
	if len(fn.Blocks) == 0 {
		return b
	}
	ords := loopOrdinals(fn)
	seen := map[string]bool{}
	for _, blk := range fn.Blocks {
		if ord, ok := ords[blk]; ok {
			key := itoa(ord)
			for _, ins := range blk.Instrs {
				phi, ok := ins.(*ssa.Phi)
				if !ok {
					break
				}
				b.Loops[key] = append(b.Loops[key], nameType{phi.Comment, e.W.typeString(phi.Type())})
			}
		}
		for _, ins := range blk.Instrs {
			switch t := ins.(type) {
			case *ssa.DebugRef:
				if t.IsAddr || t.Expr == nil {
					continue
				}
				if _, isIdent := t.Expr.(*ast.Ident); !isIdent {
					continue
				}
				n := types.ExprString(t.Expr)
				if !seen[n] {
					seen[n] = true
					b.Locals = append(b.Locals, nameType{n, e.W.typeString(t.X.Type())})
				}
			case *ssa.Alloc:
				if t.Comment != "" && t.Comment != "complit" && t.Comment != "varargs" && !seen[t.Comment] {
					seen[t.Comment] = true
					b.Locals = append(b.Locals, nameType{t.Comment, e.W.typeString(derefType(t.Type()))})
				}
			}
		}
	}
	return b
}

func itoa(n int) string {
	if n == 0 {
		return "0"
	}
	s := ""
	for n > 0 {
		s = string(rune('0'+n%10)) + s
		n /= 10
	}
	return s
}

func (e *Engine) writeBindings(path string) error {
	out := Bindings{}
	var names []string
	for n := range e.Funcs {
		names = append(names, n)
	}
	sort.Strings(names)
	for _, n := range names {
		if _, ok := e.CS.ByName[n]; !ok {
			continue
		}
		out[n] = e.bindingOf(e.Funcs[n])
	}
	data, _ := json.MarshalIndent(out, "", " ")
	return os.WriteFile(path, data, 0o644)
}

func (e *Engine) loadBindings() {
	e.Recorded = Bindings{}
	exe, err := os.Executable()
	if err != nil {
		return
	}
	data, err := os.ReadFile(filepath.Join(filepath.Dir(filepath.Dir(exe)), "bindings.json"))
	if err != nil {
		return
	}
	json.Unmarshal(data, &e.Recorded)
}

// paramAlias: current parameter index for a recorded parameter name that no longer exists.
func (e *Engine) paramAlias(fn *ssa.Function, name string) int {
	rec := e.Recorded[e.fnName(fn)]
	if rec == nil || len(rec.Params) != len(fn.Params) {
		return -1
	}
	for _, p := range fn.Params {
		if p.Name() == name {
			return -1 // the name exists: no alias
		}
	}
	for i, n := range rec.Params {
		if n == name {
			return i
		}
	}
	return -1
}

// phiAlias: the header phi that took the place of a recorded loop variable.
func (e *Engine) phiAlias(fn *ssa.Function, header *ssa.BasicBlock, ord int, name string) *ssa.Phi {
	rec := e.Recorded[e.fnName(fn)]
	if rec == nil {
		return nil
	}
	old := rec.Loops[itoa(ord)]
	var cur []*ssa.Phi
	for _, ins := range header.Instrs {
		phi, ok := ins.(*ssa.Phi)
		if !ok {
			break
		}
		if phi.Comment == name {
			return nil
		}
		cur = append(cur, phi)
	}
	if len(old) != len(cur) {
		return nil
	}
	for i, o := range old {
		if o.Name == name && e.W.typeString(cur[i].Type()) == o.Type {
			return cur[i]
		}
	}
	return nil
}

// localAlias: the current name of a recorded local (same index among the locals of its type).
func (e *Engine) localAlias(fn *ssa.Function, name string) string {
	rec := e.Recorded[e.fnName(fn)]
	if rec == nil {
		return ""
	}
	cur := e.bindingOf(fn).Locals
	typ := ""
	for _, l := range rec.Locals {
		if l.Name == name {
			typ = l.Type
		}
	}
	if typ == "" {
		return ""
	}
	var a, b []string
	for _, l := range rec.Locals {
		if l.Type == typ {
			a = append(a, l.Name)
		}
	}
	for _, l := range cur {
		if l.Type == typ {
			b = append(b, l.Name)
		}
		if l.Name == name {
			return "" // still exists
		}
	}
	if len(a) != len(b) {
		return ""
	}
	for i, n := range a {
		if n == name {
			return b[i]
		}
	}
	return ""
}

// closureShape: signature and the sorted (name, type) list of the captured variables.
func (e *Engine) closureShape(fn *ssa.Function) (string, []nameType) {
	var fvs []nameType
	for _, fv := range fn.FreeVars {
		fvs = append(fvs, nameType{fv.Name(), e.W.typeString(fv.Type())})
	}
	sort.Slice(fvs, func(i, j int) bool { return fvs[i].Name < fvs[j].Name })
	return fn.Signature.String(), fvs
}

// rebindMovedClosures: a closure contract whose function no longer exists under its recorded name is
// bound to the one uncontracted closure of the repository that has the recorded signature and
// captures the recorded variables (a callback moved into an extracted helper). Ambiguity or no match
// leaves the contract unbound, which is reported. The obligations are generated from the closure as
// it is now; a wrong match can only make them fail.
func (e *Engine) rebindMovedClosures() {
	e.Rebound = map[string]*Contract{}
	for _, c := range e.CS.Order {
		if c.Kind != "func" && c.Kind != "closure" {
			continue
		}
		if !strings.Contains(c.Name, "$") || e.Funcs[c.Name] != nil {
			continue
		}
		rec := e.Recorded[c.Name]
		if rec == nil || rec.Sig == "" {
			continue
		}
		var cands []*ssa.Function
		var names []string
		for n := range e.Funcs {
			names = append(names, n)
		}
		sort.Strings(names)
		for _, n := range names {
			fn := e.Funcs[n]
			if fn.Parent() == nil || e.CS.ByName[n] != nil || e.Rebound[n] != nil {
				continue
			}
			sig, fvs := e.closureShape(fn)
			if sig != rec.Sig || len(fvs) != len(rec.FreeVars) {
				continue
			}
			same := true
			for i := range fvs {
				if fvs[i] != rec.FreeVars[i] {
					same = false
				}
			}
			if same {
				cands = append(cands, fn)
			}
		}
		if len(cands) == 1 {
			e.Rebound[e.fnName(cands[0])] = c
			e.Funcs[c.Name] = cands[0]
		}
	}
}
