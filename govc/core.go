package main

// Core of the verification-condition generator: symbolic state, items (declarations,
// assumptions, obligations), CFG traversal with loops cut at their headers.

import (
	"fmt"
	"go/token"
	"go/types"
	"sort"
	"strings"

	"golang.org/x/tools/go/ssa"
)

type Engine struct {
	W      *World
	Prog   *ssa.Program
	Pkgs   []*ssa.Package
	CS     *Contracts
	Funcs  map[string]*ssa.Function
	Rebound map[string]*Contract // current closure name -> contract recorded under the closure's earlier name
	Fset   *token.FileSet
	InitOnlyGlobals map[*ssa.Global]bool
	GlobalInit      map[*ssa.Global]ssa.Value // constant initialisers found in init
	Debug  bool
	RepoDir string
	Recorded Bindings // names recorded on the pinned tree (rename tolerance)
}

type Obligation struct {
	Name    string
	Kind    string // safe pre post inv-init inv-keep variant refine lemma cover frame
	Func    string
	Props   []string
	Clause  string
	Pos     string
	Expect  string // "unsat" normally; "sat" for cover obligations
	Script  string
	Status  string // discharged refuted undecided
	Solver  string
	Second  string // thorough tier: solver of another family that also answered unsat
	Time    float64
	Model   string
	Output  string
	Replay  *ReplayInfo
	Probe   string      // "pre"/"post": consistency probe around a call (post counts only when pre is satisfiable)
	ProbePre *Obligation
	Confirmed bool // the violation was observed on the real code (bounded runs)
	FirstIter []string
	ResultVals []Val // symbolic results at the exit a post obligation belongs to
	ClauseExpr Expr
	Splits  []string // reach conditions of the paths merged most recently before the obligation (their disjunction is implied by the obligation's reach): case-split fallback
	Inputs  map[string]string // names of input consts -> description (for replay)
}

type item struct {
	kind string // decl assume oblig
	text string
	ob   *Obligation
	reach, goal Term
}

type immInfo struct {
	fe  string // name of the element-array function
	obj Term
	es  string
}

type Val struct {
	Imm   *immInfo // slice read from an immutable field: its elements are FE(obj), not heap memory
	T     Term
	Tuple []Val
	Addr  *Addr
	Clo   *Closure
	Typ   types.Type
	None  bool
	NilIf *Term // with Addr: the pointer is nil under this condition (result of an inlined callee that returns nil or one address)
}

type Closure struct {
	Fn       *ssa.Function
	Bindings []Val
	id       Term
}

type Addr struct {
	Kind  string // cell heap elem global box region
	Alloc *ssa.Alloc
	Obj   Term // heap: object ref; box: ref; elem: slice term
	Idx   Term
	SName string // heap: struct sort name
	Field int
	FTyp  types.Type // type of the addressed location (after Path)
	Base  types.Type // type of the root location (cell / field / element / global)
	Path  []pstep
	Glob  *ssa.Global
	Reg   Term // region-backed arrays
	ElemSort string
	Imm   *immInfo
}

type pstep struct {
	field int  // >=0: struct field
	idx   Term // array index when field<0
	typ   types.Type
}

type deferred struct {
	call  *ssa.Defer
	guard Term
	args  []Val
	fnv   Val
}

type State struct {
	reach  Term
	cells  map[*ssa.Alloc]Term
	comps  map[string]Term
	epoch  string
	defers []deferred
	splits []Term // reach conditions merged at the last join on the way here
	firstIter []string // replay hint: equalities making every enclosing loop's state its entry state
}

func (s *State) clone() *State {
	n := &State{reach: s.reach, epoch: s.epoch, cells: map[*ssa.Alloc]Term{}, comps: map[string]Term{}}
	for k, v := range s.cells {
		n.cells[k] = v
	}
	for k, v := range s.comps {
		n.comps[k] = v
	}
	n.defers = append([]deferred(nil), s.defers...)
	n.splits = s.splits
	n.firstIter = s.firstIter
	return n
}

type exitPoint struct {
	st      *State
	results []Val
	panic   bool
	pos     token.Pos
	idx     int
}

// FX is one verification run of one top-level function (with inlined callees sharing it).
type FX struct {
	e      *Engine
	fn     *ssa.Function
	name   string
	c      *Contract
	topFrame *frame
	items  []item
	ctr    int
	obs    []*Obligation
	compSorts map[string]string
	knownComps map[string]bool
	epochConsts map[string]Term
	obCount map[string]int
	depth  int
	unsupported []string
	inputs map[string]string
	probeCount int
	ghostUsed bool // some contract clause evaluated for this function mentions a ghost variable
	usesAx map[string]bool
	usedAssumed map[string]bool // assumed contracts (externs, trusted functions, trusted-ensures clauses) applied at call sites
	assumeSafe bool // do not emit safe obligations (used for refinement-only runs)
	curFn  *ssa.Function
	inlineStack []*ssa.Function
	oldState *State // state at entry of the top-level function
	entryVals map[string]Val
	noSafe bool
	unknownCalls []string
	bufSlices map[string]Term
	searchPred []searchFact
	estUsed []string
	inInv bool
	invAssumed map[string]bool
	invBroken map[string]bool
	invObjs [][2]string
	inLoopBlock bool // the block being executed lies inside a loop (of this function or of an inlining caller)
	invStoreReach map[string]Term // reach conditions of the stores that may have broken an object's invariant
}

type frame struct {
	fx    *FX
	fn    *ssa.Function
	vals  map[ssa.Value]Val
	c     *Contract
	prefix string
	freeVals []Val
	loopOrd map[*ssa.BasicBlock]int
	entry   *State
	params  []Val
	top     bool
	cellClo map[*ssa.Alloc]*Closure
	dbg     map[string]ssa.Value
	dbgAll  map[string][]ssa.Value
	allocsByName map[string][]*ssa.Alloc
	snap    map[ssa.Value][2]Term
	parent  *frame // the frame this one is inlined into (nil for the function under verification)
}

func (fx *FX) fresh(prefix string) string {
	fx.ctr++
	return fmt.Sprintf("%s!%d", sanitize(prefix), fx.ctr)
}

func (fx *FX) declare(name, sort string) Term {
	fx.items = append(fx.items, item{kind: "decl", text: fmt.Sprintf("(declare-const %s %s)", name, sort)})
	return T(name, sort)
}

func (fx *FX) freshConst(prefix, sort string) Term {
	return fx.declare(fx.fresh(prefix), sort)
}

// define introduces a named constant equal to t (keeps scripts readable and models informative).
func (fx *FX) define(prefix string, t Term) Term {
	if !strings.HasPrefix(t.S, "(") {
		return t
	}
	n := fx.fresh(prefix)
	fx.items = append(fx.items, item{kind: "decl", text: fmt.Sprintf("(define-fun %s () %s %s)", n, t.Sort, t.S)})
	r := T(n, t.Sort)
	r.Signed = t.Signed
	return r
}

// nameConst introduces a declared constant equal to t (unlike define, the name survives macro
// expansion, so it can be used inside quantifier patterns).
func (fx *FX) nameConst(prefix string, t Term) Term {
	n := fx.fresh(prefix)
	fx.items = append(fx.items, item{kind: "decl", text: fmt.Sprintf("(declare-const %s %s)\n(assert (= %s %s))", n, t.Sort, n, t.S)})
	r := T(n, t.Sort)
	r.Signed = t.Signed
	return r
}

func (fx *FX) assume(reach, fact Term) {
	if fact.S == "true" {
		return
	}
	fx.items = append(fx.items, item{kind: "assume", text: fmt.Sprintf("(assert %s)", Implies(reach, fact).S)})
}

func (fx *FX) oblige(st *State, kind, label, clause string, goal Term, pos token.Pos, props []string) {
	if fx.noSafe && kind == "safe" {
		// still restrict the continuation
		return
	}
	fx.obCount[kind+label]++
	name := fmt.Sprintf("%s.%s", fx.name, label)
	if n := fx.obCount[kind+label]; n > 1 {
		name = fmt.Sprintf("%s#%d", name, n)
	}
	ob := &Obligation{Name: name, Kind: kind, Func: fx.name, Clause: clause, Expect: "unsat", Props: props}
	if pos.IsValid() {
		p := fx.e.Fset.Position(pos)
		ob.Pos = fmt.Sprintf("%s:%d", strings.TrimPrefix(p.Filename, "/repo/"), p.Line)
	}
	if len(ob.Props) == 0 && fx.c != nil {
		ob.Props = fx.c.Props
	}
	if n := len(st.splits); n >= 2 && n <= 24 && kind != "cover" {
		for _, sp := range st.splits {
			ob.Splits = append(ob.Splits, sp.S)
		}
	}
	ob.FirstIter = st.firstIter
	fx.items = append(fx.items, item{kind: "oblig", ob: ob, reach: st.reach, goal: goal})
	fx.obs = append(fx.obs, ob)
}

// comp returns the current value of a state component, creating the epoch's input constant lazily.
func (fx *FX) comp(st *State, name, sort string) Term {
	if t, ok := st.comps[name]; ok {
		return t
	}
	fx.compSorts[name] = sort
	fx.knownComps[name] = true
	key := st.epoch + "|" + name
	if t, ok := fx.epochConsts[key]; ok {
		return t
	}
	t := fx.freshConst(strings.NewReplacer(":", "_", ".", "_").Replace(name)+"_"+st.epoch, sort)
	fx.epochConsts[key] = t
	if name == "$alloc" {
		fx.assume(True, app(">", SBool, t, T("0", SInt)))
	}
	return t
}

func (fx *FX) setComp(st *State, name string, v Term) {
	fx.compSorts[name] = v.Sort
	fx.knownComps[name] = true
	st.comps[name] = v
}

// havoc replaces the named components by fresh constants; "*" havocs everything (new epoch).
func (fx *FX) havoc(st *State, names []string) {
	for _, n := range names {
		if n == "*" {
			oldAlloc := fx.comp(st, "$alloc", SInt)
			keep := map[string]Term{}
			for _, ex := range names {
				if strings.HasPrefix(ex, "-") {
					for _, k := range fx.expandCompName(ex[1:]) {
						if fx.compSorts[k] != "" {
							keep[k] = fx.comp(st, k, fx.compSorts[k])
						}
					}
				}
			}
			for k := range fx.knownComps {
				if strings.HasPrefix(k, "G:") && !fx.e.envGhost(k) { // protocol ghosts are only changed when named
					keep[k] = fx.comp(st, k, fx.compSorts[k])
				}
			}
			st.comps = map[string]Term{}
			st.epoch = fx.fresh("e")
			for k, v := range keep {
				st.comps[k] = v
			}
			na := fx.comp(st, "$alloc", SInt)
			fx.assume(st.reach, app(">=", SBool, na, oldAlloc))
			break
		}
	}
	for _, n := range names {
		if n == "*" || strings.HasPrefix(n, "-") {
			continue
		}
		for _, k := range fx.expandCompName(n) {
			srt := fx.compSorts[k]
			if srt == "" {
				continue
			}
			if k == "$alloc" {
				old := fx.comp(st, k, srt)
				nv := fx.freshConst("alloc", SInt)
				fx.assume(st.reach, app(">=", SBool, nv, old))
				st.comps[k] = nv
				continue
			}
			st.comps[k] = fx.freshConst(strings.NewReplacer(":", "_", ".", "_").Replace(k), srt)
		}
	}
}

// expandCompName maps a modifies-clause item to component keys.
func (fx *FX) expandCompName(n string) []string {
	var out []string
	switch {
	case n == "mem":
		for k := range fx.knownComps {
			if strings.HasPrefix(k, "M:") {
				out = append(out, k)
			}
		}
	case n == "box":
		for k := range fx.knownComps {
			if strings.HasPrefix(k, "B:") {
				out = append(out, k)
			}
		}
	case n == "heap":
		for k := range fx.knownComps {
			if strings.HasPrefix(k, "H:") {
				out = append(out, k)
			}
		}
	case n == "alloc":
		out = append(out, "$alloc")
	case strings.Contains(n, ":") || strings.HasPrefix(n, "$"):
		out = append(out, n)
	default:
		// ghost variable or heap field "pkg.Type.field"
		for _, g := range fx.e.CS.Ghosts {
			if g.Name == n {
				return []string{"G:" + n}
			}
		}
		if k := fx.e.heapFieldKey(n); k != "" {
			out = append(out, k)
		}
	}
	sort.Strings(out)
	return out
}

// heapFieldKey resolves "db.Database.dirty" to its component key.
func (e *Engine) heapFieldKey(n string) string {
	i := strings.LastIndex(n, ".")
	if i < 0 {
		return ""
	}
	tn, fn := n[:i], n[i+1:]
	for _, p := range e.Prog.AllPackages() {
		if !strings.Contains(tn, p.Pkg.Name()+".") {
			continue
		}
		for _, m := range p.Members {
			if t, ok := m.(*ssa.Type); ok {
				if e.W.typeString(t.Type()) == tn {
					if st, ok := t.Type().Underlying().(*types.Struct); ok {
						for k := 0; k < st.NumFields(); k++ {
							if st.Field(k).Name() == fn {
								return fmt.Sprintf("H:%s.%d", e.W.SortOf(t.Type()), k)
							}
						}
					}
				}
			}
		}
	}
	return ""
}

// merge joins states arriving over several edges.
func (fx *FX) merge(label string, ins []*State) *State {
	if len(ins) == 1 {
		return ins[0].clone()
	}
	var rs []Term
	for _, s := range ins {
		rs = append(rs, s.reach)
	}
	out := &State{cells: map[*ssa.Alloc]Term{}, comps: map[string]Term{}}
	out.reach = fx.define("reach_"+label, Or(rs...))
	out.splits = rs
	out.firstIter = ins[0].firstIter
	out.epoch = ins[0].epoch
	sameEpoch := true
	for _, s := range ins {
		if s.epoch != out.epoch {
			sameEpoch = false
		}
	}
	if !sameEpoch {
		out.epoch = fx.fresh("e")
	}
	// cells
	cellKeys := map[*ssa.Alloc]bool{}
	for _, s := range ins {
		for k := range s.cells {
			cellKeys[k] = true
		}
	}
	for k := range cellKeys {
		var vs []Term
		ok := true
		for _, s := range ins {
			v, has := s.cells[k]
			if !has {
				ok = false
				break
			}
			vs = append(vs, v)
		}
		if !ok {
			continue // not initialised on every path: dead afterwards
		}
		out.cells[k] = fx.mergeTerms("cell_"+k.Name(), ins, vs)
	}
	compKeys := map[string]bool{}
	for _, s := range ins {
		for k := range s.comps {
			compKeys[k] = true
		}
	}
	if !sameEpoch {
		for k := range fx.knownComps {
			compKeys[k] = true
		}
	}
	keys := make([]string, 0, len(compKeys))
	for k := range compKeys {
		keys = append(keys, k)
	}
	sort.Strings(keys)
	for _, k := range keys {
		var vs []Term
		for _, s := range ins {
			vs = append(vs, fx.comp(s, k, fx.compSorts[k]))
		}
		out.comps[k] = fx.mergeTerms(strings.NewReplacer(":", "_", ".", "_").Replace(k), ins, vs)
	}
	// defers: must agree structurally; take the longest with guards
	best := ins[0]
	for _, s := range ins {
		if len(s.defers) > len(best.defers) {
			best = s
		}
	}
	out.defers = append([]deferred(nil), best.defers...)
	return out
}

func (fx *FX) mergeTerms(label string, ins []*State, vs []Term) Term {
	same := true
	for _, v := range vs[1:] {
		if v.S != vs[0].S {
			same = false
		}
	}
	if same {
		return vs[0]
	}
	t := vs[len(vs)-1]
	for i := len(vs) - 2; i >= 0; i-- {
		t = Ite(ins[i].reach, vs[i], t)
	}
	t.Signed = vs[0].Signed
	return fx.define("m_"+label, t)
}

// ---------------------------------------------------------------------------------------
// CFG traversal

type loopInfo struct {
	header *ssa.BasicBlock
	blocks map[*ssa.BasicBlock]bool
	ord    int
}

func findLoops(fn *ssa.Function) (map[*ssa.BasicBlock]*loopInfo, map[[2]int]bool) {
	loops := map[*ssa.BasicBlock]*loopInfo{}
	back := map[[2]int]bool{}
	for _, b := range fn.Blocks {
		for _, s := range b.Succs {
			if s.Dominates(b) {
				back[[2]int{b.Index, s.Index}] = true
				li := loops[s]
				if li == nil {
					li = &loopInfo{header: s, blocks: map[*ssa.BasicBlock]bool{s: true}}
					loops[s] = li
				}
				// natural loop: all nodes that reach b without passing through s
				var stack []*ssa.BasicBlock
				if !li.blocks[b] {
					li.blocks[b] = true
					stack = append(stack, b)
				}
				for len(stack) > 0 {
					x := stack[len(stack)-1]
					stack = stack[:len(stack)-1]
					for _, p := range x.Preds {
						if !li.blocks[p] {
							li.blocks[p] = true
							stack = append(stack, p)
						}
					}
				}
			}
		}
	}
	// ordinals by source order of header (block index order is source order in go/ssa)
	var hs []*ssa.BasicBlock
	for h := range loops {
		hs = append(hs, h)
	}
	sort.Slice(hs, func(i, j int) bool { return hs[i].Index < hs[j].Index })
	for i, h := range hs {
		loops[h].ord = i + 1
	}
	return loops, back
}

// topoOrder returns blocks in reverse postorder ignoring back edges.
func topoOrder(fn *ssa.Function, back map[[2]int]bool) []*ssa.BasicBlock {
	seen := map[*ssa.BasicBlock]bool{}
	var post []*ssa.BasicBlock
	var dfs func(b *ssa.BasicBlock)
	dfs = func(b *ssa.BasicBlock) {
		seen[b] = true
		for _, s := range b.Succs {
			if back[[2]int{b.Index, s.Index}] || seen[s] {
				continue
			}
			dfs(s)
		}
		post = append(post, b)
	}
	dfs(fn.Blocks[0])
	for i, j := 0, len(post)-1; i < j; i, j = i+1, j-1 {
		post[i], post[j] = post[j], post[i]
	}
	return post
}

type unsupportedErr struct{ msg string }

func (fx *FX) unsupportedf(format string, a ...interface{}) {
	panic(unsupportedErr{fmt.Sprintf(format, a...)})
}

// runBody symbolically executes fn from the given entry state and returns its exit points.
func (fx *FX) runBody(fr *frame, entry *State) []exitPoint {
	fn := fr.fn
	if len(fn.Blocks) == 0 {
		fx.unsupportedf("function %s has no body", fn)
	}
	loops, back := findLoops(fn)
	order := topoOrder(fn, back)
	// inlined into a block that lies in a loop of the caller: everything here is "in a loop"
	enteredInLoop := fx.inLoopBlock
	loopBase := enteredInLoop && len(fx.inlineStack) > 0
	defer func() { fx.inLoopBlock = enteredInLoop }()
	edgeOut := map[[2]int]*State{} // state along edge pred->succ
	var exits []exitPoint
	fr.loopOrd = map[*ssa.BasicBlock]int{}
	for h, li := range loops {
		fr.loopOrd[h] = li.ord
	}
	for _, b := range order {
		var st *State
		if b == fn.Blocks[0] {
			st = entry.clone()
		} else {
			var ins []*State
			var inPreds []*ssa.BasicBlock
			for _, p := range b.Preds {
				if back[[2]int{p.Index, b.Index}] {
					continue
				}
				if s, ok := edgeOut[[2]int{p.Index, b.Index}]; ok {
					ins = append(ins, s)
					inPreds = append(inPreds, p)
				}
			}
			if len(ins) == 0 {
				continue // unreachable (e.g. after panic)
			}
			if li := loops[b]; li != nil {
				st = fx.enterLoop(fr, li, b, ins, inPreds)
			} else {
				st = fx.merge(fmt.Sprintf("b%d", b.Index), ins)
				fx.bindPhis(fr, b, ins, inPreds, st)
			}
		}
		// execute instructions
		alive := true
		inLoop := false
		for _, li := range loops {
			if li.blocks[b] {
				inLoop = true
			}
		}
		fx.inLoopBlock = inLoop || loopBase
		for _, ins := range b.Instrs {
			if _, isPhi := ins.(*ssa.Phi); isPhi {
				continue
			}
			switch t := ins.(type) {
			case *ssa.If:
				c := fr.val(t.Cond).T
				s1 := st.clone()
				s1.reach = fx.define(fmt.Sprintf("r_b%d_t", b.Index), And(st.reach, c))
				s2 := st.clone()
				s2.reach = fx.define(fmt.Sprintf("r_b%d_f", b.Index), And(st.reach, Not(c)))
				fx.takeEdge(fr, loops, back, edgeOut, b, b.Succs[0], s1)
				fx.takeEdge(fr, loops, back, edgeOut, b, b.Succs[1], s2)
				alive = false
			case *ssa.Jump:
				fx.takeEdge(fr, loops, back, edgeOut, b, b.Succs[0], st)
				alive = false
			case *ssa.Return:
				var rs []Val
				for _, r := range t.Results {
					rs = append(rs, fr.val(r))
				}
				exits = append(exits, exitPoint{st: st, results: rs, pos: t.Pos(), idx: len(exits)})
				alive = false
			case *ssa.Panic:
				fx.execPanic(fr, st, t)
				alive = false
			default:
				alive = fx.execInstr(fr, st, ins)
			}
			if !alive {
				break
			}
		}
	}
	return exits
}

func (fx *FX) takeEdge(fr *frame, loops map[*ssa.BasicBlock]*loopInfo, back map[[2]int]bool, edgeOut map[[2]int]*State, from, to *ssa.BasicBlock, st *State) {
	if back[[2]int{from.Index, to.Index}] {
		fx.closeLoop(fr, loops[to], from, st)
		return
	}
	// leaving a loop: exit lemmas (proved on the exit edge, then available after the loop)
	for _, li := range loops {
		if from == li.header && !li.blocks[to] {
			if cls := fx.loopClauses(fr, li, "exit"); len(cls) > 0 {
				env := fx.newEnv(fr, st)
				fx.addLoopNames(fr, env, li.header)
				for j, cl := range cls {
					g := fx.evalBool(env, cl.Expr)
					fx.oblige(st, "inv-keep", fmt.Sprintf("loop#%d.exit#%d%s", li.ord, j+1, lbl(cl)), cl.Text, g, from.Instrs[len(from.Instrs)-1].Pos(), cl.Props)
					st.reach = fx.define("r_exit", And(st.reach, g))
				}
			}
		}
	}
	edgeOut[[2]int{from.Index, to.Index}] = st
}

func (fx *FX) bindPhis(fr *frame, b *ssa.BasicBlock, ins []*State, preds []*ssa.BasicBlock, st *State) {
	for _, instr := range b.Instrs {
		phi, ok := instr.(*ssa.Phi)
		if !ok {
			break
		}
		var vs []Term
		var clo *Closure
		for _, p := range preds {
			for k, bp := range b.Preds {
				if bp == p {
					v := fr.val(phi.Edges[k])
					if v.Addr != nil {
						fx.unsupportedf("phi of addresses in %s", fr.fn)
					}
					if v.Clo != nil {
						clo = v.Clo
					}
					vs = append(vs, v.T)
					break
				}
			}
		}
		_ = clo
		t := fx.mergeTerms(phi.Name(), ins, vs)
		t.Signed = isSigned(phi.Type())
		fr.vals[phi] = Val{T: t, Typ: phi.Type()}
	}
}

// envGhost: the component is an environment ghost (declared `ghost NAME SORT env`), which "*" covers.
func (e *Engine) envGhost(comp string) bool {
	for _, g := range e.CS.Ghosts {
		if "G:"+g.Name == comp {
			return g.Env
		}
	}
	return false
}
