package main

// `govc check`: decide one property on /repo's current working tree, write the evidence file,
// print VIOLATION / KNOWN-FINDING lines, exit 0/1.

import (
	"encoding/json"
	"flag"
	"fmt"
	"os"
	"path/filepath"
	"regexp"
	"sort"
	"strings"
	"time"
)

type KnownFinding struct {
	Property   string `json:"property"`
	Obligation string `json:"obligation"` // regexp on the obligation name
	What       string `json:"what"`
	Status     string `json:"status"` // "open" or "fixed"
	Commit     string `json:"commit,omitempty"`
}

type PropSpec struct {
	ID          string   `json:"id"`
	Extra       []string `json:"extra_checks"` // names of non-SMT analyses (frame scans)
	Assumptions []string `json:"assumptions"`
	NotCovered  []string `json:"not_covered"`
	Bounded     []string `json:"bounded"`
}

func runCheck(args []string) {
	fs := flag.NewFlagSet("check", flag.ExitOnError)
	repo := fs.String("repo", "/repo", "repository root")
	prop := fs.String("prop", "", "property id")
	tier := fs.String("tier", "quick", "quick|thorough")
	verif := fs.String("verif", "/verif", "verif root")
	outRoot := fs.String("out", "", "output root for evidence/replays/work (default: the verif root)")
	fs.Parse(args)
	if *outRoot == "" {
		*outRoot = *verif
	}
	if *prop == "" {
		fmt.Fprintln(os.Stderr, "need -prop")
		os.Exit(2)
	}
	if t := os.Getenv("VERIF_TIER"); t != "" && *tier == "" {
		*tier = t
	}
	seed := 0
	fmt.Sscanf(os.Getenv("VERIF_SEED"), "%d", &seed)
	t0 := time.Now()
	probeCalls = true // call-site consistency probes run in both tiers
	quick, full := 8*time.Second, 150*time.Second
	if v := os.Getenv("GOVC_FULL"); v != "" {
		// self-test runs on deliberately broken trees: do not wait long for obligations that will not prove
		if d, err := time.ParseDuration(v); err == nil {
			full = d
		}
	}
	if *tier == "thorough" {
		quick, full = 20*time.Second, 300*time.Second
		crossCheck = true
		probeCalls = true
	}
	evPath := filepath.Join(*outRoot, "evidence", *prop+".json")
	os.MkdirAll(filepath.Dir(evPath), 0o755)
	replayDir := filepath.Join(*outRoot, "replays", *prop)
	os.RemoveAll(replayDir)
	os.MkdirAll(replayDir, 0o755)

	var known []KnownFinding
	if data, err := os.ReadFile(filepath.Join(*verif, "known_findings.json")); err == nil {
		json.Unmarshal(data, &known)
	}
	specs := map[string]*PropSpec{}
	if data, err := os.ReadFile(filepath.Join(*verif, "propspecs.json")); err == nil {
		var list []*PropSpec
		if err := json.Unmarshal(data, &list); err != nil {
			fmt.Fprintln(os.Stderr, "propspecs.json:", err)
			os.Exit(2)
		}
		for _, p := range list {
			specs[p.ID] = p
		}
	}
	ps := specs[*prop]
	if ps == nil {
		ps = &PropSpec{ID: *prop}
	}

	violations := 0
	report := func(name, why, replay string, noInput bool) {
		violations++
		line := fmt.Sprintf("VIOLATION property=%s replay=%s", *prop, replay)
		if noInput {
			line += " obligation=" + name + " no-failing-input-found"
		} else {
			line += " obligation=" + name
		}
		fmt.Println(line)
		_ = why
	}

	e, err := LoadEngine(*repo)
	if err != nil {
		// the tree does not load (does not compile): nothing can be claimed
		rp := filepath.Join(replayDir, "load-failure.json")
		writeJSON(rp, map[string]interface{}{"obligation": "load", "error": err.Error()})
		report("load", err.Error(), rp, true)
		writeEvidence(evPath, *prop, *tier, seed, nil, nil, ps, time.Since(t0).Seconds(), violations, nil, nil)
		os.Exit(1)
	}
	work := filepath.Join(*outRoot, "work", "smt-"+*prop)
	os.RemoveAll(work)
	results := e.RunContracts(func(c *Contract) bool {
		if c.Kind == "lemma" && *tier != "thorough" && c.Opts["tier"] == "thorough" {
			return false
		}
		return hasProp(c, *prop)
	}, work, quick, full)

	// extra analyses (frame scans etc.)
	var extraObs []*Obligation
	currentTier, currentOut = *tier, *outRoot
	for _, x := range ps.Extra {
		extraObs = append(extraObs, e.runExtra(x, *prop)...)
	}
	if len(extraObs) > 0 {
		results = append(results, &FuncResult{Name: "package-level obligations (scans, bounded runs)", Obligations: extraObs})
	}

	isKnown := func(name string) *KnownFinding {
		for i := range known {
			k := &known[i]
			if k.Status == "fixed" {
				continue
			}
			if ok, _ := regexp.MatchString("^"+k.Obligation+"$", name); ok {
				return k
			}
		}
		return nil
	}
	printedKnown := map[string]bool{}
	var unclaimed []string
	total, discharged := 0, 0
	boundedRuns := 0
	probesOK := 0
	for _, r := range results {
		if r.Unsupported != "" {
			name := r.Name + ".translate"
			if k := isKnown(name); k != nil {
				if !printedKnown[k.Obligation] {
					fmt.Printf("KNOWN-FINDING: property=%s %s\n", *prop, k.What)
					printedKnown[k.Obligation] = true
				}
				continue
			}
			rp := filepath.Join(replayDir, sanitize(name)+".json")
			writeJSON(rp, map[string]interface{}{"obligation": name, "function": r.Name, "reason": r.Unsupported,
				"explanation": "the function under contract could not be verified on this tree (contract does not bind, or the code left the verifiable subset); the obligations it discharged on the unchanged tree are lost"})
			report(name, r.Unsupported, rp, true)
			continue
		}
		for _, ob := range r.Obligations {
			if ob.Probe == "pre" {
				continue // only meaningful together with its post probe
			}
			if ob.Probe == "post" {
				// a contradiction introduced by the callee's contract: reachable before, unreachable after
				if ob.ProbePre != nil && ob.ProbePre.Status == "discharged" && ob.Status == "refuted" {
					total++
				} else {
					probesOK++
					continue
				}
			}
			if ob.Kind == "bounded" {
				// bounded stand-ins are reported but never counted as proved
				boundedRuns++
				if ob.Status == "discharged" {
					continue
				}
			} else {
				total++
				if ob.Status == "discharged" {
					discharged++
					continue
				}
			}
			if k := isKnown(ob.Name); k != nil {
				if !printedKnown[k.Obligation] {
					fmt.Printf("KNOWN-FINDING: property=%s %s\n", k.Property, k.What)
					printedKnown[k.Obligation] = true
				}
				unclaimed = append(unclaimed, ob.Name+" (known finding)")
				total--
				continue
			}
			rp := filepath.Join(replayDir, sanitize(ob.Name)+".json")
			rep := map[string]interface{}{"obligation": ob.Name, "kind": ob.Kind, "function": ob.Func, "clause": ob.Clause, "position": ob.Pos,
				"status": ob.Status, "solver": ob.Solver, "solver_output": ob.Output}
			confirmed := ob.Confirmed
			if ob.Status == "refuted" && ob.Model != "" {
				rr := e.replay(ob, filepath.Join(*outRoot, "work", "replay-"+*prop))
				rep["replay"] = rr
				confirmed = rr != nil && rr.Confirmed
			}
			writeJSON(rp, rep)
			report(ob.Name, ob.Status, rp, !confirmed)
		}
	}
	if total == 0 && violations == 0 {
		// vacuity: a check that generates no obligations proves nothing
		rp := filepath.Join(replayDir, "no-obligations.json")
		writeJSON(rp, map[string]interface{}{"obligation": "none", "reason": "no obligation was generated for this property"})
		report("none", "no obligations", rp, true)
	}
	writeEvidence(evPath, *prop, *tier, seed, e, results, ps, time.Since(t0).Seconds(), violations, unclaimed, known)
	extra := ""
	if probesOK > 0 {
		extra = fmt.Sprintf(" (%d call-site consistency probes, none contradictory)", probesOK)
	}
	if boundedRuns > 0 {
		extra += fmt.Sprintf(" (+%d bounded run(s), not counted as proved)", boundedRuns)
	}
	fmt.Printf("property %s: %d obligations, %d discharged%s, %d violations, %.1fs\n", *prop, total, discharged, extra, violations, time.Since(t0).Seconds())
	if violations > 0 {
		os.Exit(1)
	}
}

func writeJSON(path string, v interface{}) {
	data, _ := json.MarshalIndent(v, "", " ")
	os.WriteFile(path, data, 0o644)
}

func writeEvidence(path, prop, tier string, seed int, e *Engine, results []*FuncResult, ps *PropSpec, wall float64, violations int, unclaimed []string, known []KnownFinding) {
	total, discharged := 0, 0
	byBackend := map[string]int{}
	byKind := map[string]int{}
	var solverTime float64
	secondCount := 0
	probeTotal, probePassed := 0, 0
	var boundedObs []interface{}
	var funcs []string
	var samples []interface{}
	var unknownCalls []string
	var axioms []string
	var notVerified []string
	seenAx := map[string]bool{}
	for _, r := range results {
		if r.Unsupported != "" {
			notVerified = append(notVerified, r.Name+": "+r.Unsupported)
			continue
		}
		funcs = append(funcs, fmt.Sprintf("%s (%d obligations)", r.Name, len(r.Obligations)))
		for _, u := range r.UnknownCalls {
			unknownCalls = append(unknownCalls, r.Name+" -> "+u)
		}
		for _, a := range r.Axioms {
			if !seenAx[a] {
				seenAx[a] = true
				axioms = append(axioms, a)
			}
		}
		for i, ob := range r.Obligations {
			if ob.Probe != "" {
				if ob.Probe == "post" {
					probeTotal++
					if !(ob.ProbePre != nil && ob.ProbePre.Status == "discharged" && ob.Status == "refuted") {
						probePassed++
					}
				}
				continue
			}
			if ob.Kind == "bounded" {
				boundedObs = append(boundedObs, map[string]string{"obligation": ob.Name, "status": ob.Status, "what": ob.Clause, "seconds": fmt.Sprintf("%.1f", ob.Time)})
				continue
			}
			total++
			solverTime += ob.Time
			byKind[ob.Kind]++
			if ob.Status == "discharged" {
				discharged++
				byBackend[ob.Solver]++
				if ob.Second != "" {
					secondCount++
				}
			}
			if i < 3 && len(samples) < 40 {
				samples = append(samples, map[string]string{"obligation": ob.Name, "kind": ob.Kind, "clause": ob.Clause, "at": ob.Pos, "status": ob.Status, "backend": ob.Solver})
			}
		}
	}
	for _, u := range unclaimed {
		if strings.HasSuffix(u, "(known finding)") {
			total--
		}
	}
	if total < 0 {
		total = 0
	}
	trusted := []string{
		"govc SSA->SMT-LIB translation (home-made VC generator; cross-checked by replay and the seeded-mutant self-test)",
		"go/ssa (x/tools v0.29.0) lowering of the Go source",
		"SMT solvers z3 4.8.12, z3-new 5.1.0, cvc5 1.0 (first definitive answer wins)",
		"specification functions in the `smt` blocks of /repo/*/verif_contracts*.go (transcribed from the SQLite file-format document)",
		"slices longer than 2^40 elements and offsets beyond 2^62 are assumed not to exist (model address arithmetic)",
	}
	for k, v := range trustedIntrinsics {
		trusted = append(trusted, "intrinsic "+k+": "+v)
	}
	var externs []string
	if e != nil {
		seenAssumed := map[string]bool{}
		for _, r := range results {
			for _, a := range r.Assumed {
				if !seenAssumed[a] {
					seenAssumed[a] = true
					externs = append(externs, a)
				}
			}
		}
		for _, a := range axioms {
			trusted = append(trusted, "axiom set `"+a+"` (definition/well-formedness assumptions, see contracts file)")
		}
	}
	sort.Strings(trusted)
	sort.Strings(externs)
	cov := map[string]interface{}{
		"obligations":           total,
		"discharged":            discharged,
		"checker_cmd":           fmt.Sprintf("/verif/bin/govc check -prop %s -tier %s", prop, tier),
		"trusted_base":          trusted,
		"samples":               samples,
		"functions_under_contract": funcs,
		"obligations_by_kind":   byKind,
		"discharged_by_backend": byBackend,
		"solver_time_s":         solverTime,
		"discharged_also_by_a_solver_of_another_family": secondCount,
		"assumed_external_contracts": externs,
		"calls_without_contract_havocked": unknownCalls,
		"not_verified":          notVerified,
		"unclaimed_obligations": unclaimed,
		"not_covered":           ps.NotCovered,
		"bounded":               ps.Bounded,
		"bounded_runs_not_counted_as_proved": boundedObs,
		"call_site_consistency_probes": fmt.Sprintf("%d of %d not contradictory (a probe asks: satisfiable before a callee's postconditions are assumed, still satisfiable after; probes not decided within 3 s are not pursued)", probePassed, probeTotal),
		"integer_model":         "every Go integer is a bit-vector of its width (wrap-around, signedness, shifts modelled exactly)",
	}
	if len(samples) == 0 {
		cov["samples"] = []interface{}{"none"}
	}
	ev := map[string]interface{}{
		"property_id": prop,
		"tier":        tier,
		"seed":        seed,
		"level":       "proof",
		"coverage":    cov,
		"assumptions": append([]string{}, ps.Assumptions...),
		"wall_s":      wall,
		"violations":  violations,
	}
	writeJSON(path, ev)
}

var currentTier, currentOut = "quick", "/verif"

// runExtra dispatches the non-SMT analyses.
func (e *Engine) runExtra(name, prop string) []*Obligation {
	switch name {
	case "global-frame":
		return e.globalFrameScan(prop)
	case "immutable-fields":
		return e.immutableFieldScan(prop)
	case "own-errors":
		return e.ownErrorsScan(prop)
	case "grammar-values":
		return e.grammarScan(prop)
	case "yyparse-bounded":
		return e.boundedParse(prop, currentTier, filepath.Join(currentOut, "work", "bounded-"+prop))
	case "sql-determinism":
		return e.determinismScan(prop, "/sql", []string{"errors", "fmt", "strconv", "strings", "unicode", "unicode/utf8"})
	}
	return []*Obligation{{Name: "extra." + name, Kind: "frame", Status: "undecided", Clause: "unknown analysis " + name}}
}
