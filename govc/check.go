package main

func runCheck(args []string) {}
