package main

// Contract expression language: a small Go-like expression grammar.
//   e ::= lit | ident | e.f | e[i] | e[a:b] | f(args) | unop e | e binop e | (e)
//       | forall x T :: e | exists x T :: e | old(e)
// binops (loosest first):  <==>  ==>  ||  &&  == != < <= > >=  + - | ^  * / % << >> &

import (
	"fmt"
	"strconv"
	"strings"
	"unicode"
)

type Expr interface{}

type ELit struct {
	Kind string // int bool nil str
	I    uint64
	Neg  bool
	B    bool
	S    string
}
type EIdent struct{ Name string }
type EUnary struct {
	Op string
	X  Expr
}
type EBinary struct {
	Op   string
	X, Y Expr
}
type ECall struct {
	Fn   string
	Args []Expr
}
type EIndex struct{ X, I Expr }
type ESlice struct{ X, Lo, Hi Expr }
type EField struct {
	X Expr
	F string
}
type EQuant struct {
	Wit  []Expr // optional witnesses for exists (goal position only)
	All  bool
	Vars []string
	Sorts []string
	Body Expr
	Pat  []Expr
}

type tok struct {
	k string // id num str op eof
	s string
}

type lexerE struct {
	toks []tok
	p    int
}

func lexExpr(s string) ([]tok, error) {
	var ts []tok
	i := 0
	for i < len(s) {
		c := rune(s[i])
		switch {
		case c == ' ' || c == '\t':
			i++
		case unicode.IsLetter(c) || c == '_' || c == '$':
			j := i + 1
			for j < len(s) && (unicode.IsLetter(rune(s[j])) || unicode.IsDigit(rune(s[j])) || s[j] == '_' || s[j] == '$') {
				j++
			}
			ts = append(ts, tok{"id", s[i:j]})
			i = j
		case unicode.IsDigit(c):
			j := i + 1
			for j < len(s) && (unicode.IsDigit(rune(s[j])) || unicode.IsLetter(rune(s[j]))) {
				j++
			}
			ts = append(ts, tok{"num", s[i:j]})
			i = j
		case c == '"':
			j := i + 1
			for j < len(s) && s[j] != '"' {
				if s[j] == '\\' {
					j++
				}
				j++
			}
			if j >= len(s) {
				return nil, fmt.Errorf("unterminated string")
			}
			str, err := strconv.Unquote(s[i : j+1])
			if err != nil {
				return nil, err
			}
			ts = append(ts, tok{"str", str})
			i = j + 1
		default:
			ops := []string{"<==>", "==>", "::", "&&", "||", "==", "!=", "<=", ">=", "<<", ">>", "&^"}
			matched := false
			for _, op := range ops {
				if strings.HasPrefix(s[i:], op) {
					ts = append(ts, tok{"op", op})
					i += len(op)
					matched = true
					break
				}
			}
			if !matched {
				ts = append(ts, tok{"op", string(c)})
				i++
			}
		}
	}
	ts = append(ts, tok{"eof", ""})
	return ts, nil
}

func ParseExpr(s string) (Expr, error) {
	ts, err := lexExpr(s)
	if err != nil {
		return nil, err
	}
	l := &lexerE{toks: ts}
	var e Expr
	func() {
		defer func() {
			if r := recover(); r != nil {
				if pe, ok := r.(parseErr); ok {
					err = fmt.Errorf("%s", string(pe))
					return
				}
				panic(r)
			}
		}()
		e = l.parse(0)
		if l.peek().k != "eof" {
			panic(parseErr("unexpected " + l.peek().s))
		}
	}()
	return e, err
}

type parseErr string

func (l *lexerE) peek() tok { return l.toks[l.p] }
func (l *lexerE) next() tok  { t := l.toks[l.p]; l.p++; return t }
func (l *lexerE) expect(s string) {
	if t := l.next(); t.s != s {
		panic(parseErr(fmt.Sprintf("expected %q, got %q", s, t.s)))
	}
}

var binPrec = map[string]int{
	"<==>": 1, "==>": 2, "||": 3, "&&": 4,
	"==": 5, "!=": 5, "<": 5, "<=": 5, ">": 5, ">=": 5,
	"+": 6, "-": 6, "|": 6, "^": 6,
	"*": 7, "/": 7, "%": 7, "<<": 7, ">>": 7, "&": 7, "&^": 7,
}

func (l *lexerE) parse(minPrec int) Expr {
	x := l.unary()
	for {
		t := l.peek()
		if t.k != "op" {
			return x
		}
		p, ok := binPrec[t.s]
		if !ok || p < minPrec {
			return x
		}
		l.next()
		var y Expr
		if t.s == "==>" { // right assoc
			y = l.parse(p)
		} else {
			y = l.parse(p + 1)
		}
		x = &EBinary{Op: t.s, X: x, Y: y}
	}
}

func (l *lexerE) unary() Expr {
	t := l.peek()
	if t.k == "op" && (t.s == "!" || t.s == "-" || t.s == "^") {
		l.next()
		x := l.unary()
		if t.s == "-" {
			if lit, ok := x.(*ELit); ok && lit.Kind == "int" {
				return &ELit{Kind: "int", I: lit.I, Neg: !lit.Neg}
			}
		}
		return &EUnary{Op: t.s, X: x}
	}
	if t.k == "id" && (t.s == "forall" || t.s == "exists") {
		l.next()
		q := &EQuant{All: t.s == "forall"}
		for {
			v := l.next()
			if v.k != "id" {
				panic(parseErr("quantifier variable expected"))
			}
			srt := "int"
			if l.peek().k == "id" {
				srt = l.next().s
			}
			q.Vars = append(q.Vars, v.s)
			q.Sorts = append(q.Sorts, srt)
			if l.peek().s == ":" && l.toks[l.p+1].s == "=" {
				l.next()
				l.next()
				q.Wit = append(q.Wit, l.parse(5))
			} else {
				q.Wit = append(q.Wit, nil)
			}
			if l.peek().s == "," {
				l.next()
				continue
			}
			break
		}
		l.expect("::")
		q.Body = l.parse(0)
		return q
	}
	return l.postfix(l.primary())
}

func (l *lexerE) primary() Expr {
	t := l.next()
	switch t.k {
	case "num":
		v, err := strconv.ParseUint(t.s, 0, 64)
		if err != nil {
			panic(parseErr("bad number " + t.s))
		}
		return &ELit{Kind: "int", I: v}
	case "str":
		return &ELit{Kind: "str", S: t.s}
	case "id":
		switch t.s {
		case "true":
			return &ELit{Kind: "bool", B: true}
		case "false":
			return &ELit{Kind: "bool", B: false}
		case "nil":
			return &ELit{Kind: "nil"}
		}
		return &EIdent{Name: t.s}
	case "op":
		if t.s == "(" {
			e := l.parse(0)
			l.expect(")")
			return e
		}
	}
	panic(parseErr("unexpected token " + t.s))
}

func (l *lexerE) postfix(x Expr) Expr {
	for {
		t := l.peek()
		if t.k != "op" {
			return x
		}
		switch t.s {
		case ".":
			l.next()
			f := l.next()
			if f.k != "id" {
				panic(parseErr("field name expected"))
			}
			x = &EField{X: x, F: f.s}
		case "(":
			id, ok := x.(*EIdent)
			if !ok {
				// qualified name a.b( -> treat as call of "a.b"
				if fe, ok2 := x.(*EField); ok2 {
					if base, ok3 := fe.X.(*EIdent); ok3 {
						id = &EIdent{Name: base.Name + "." + fe.F}
						ok = true
					}
				}
				if !ok {
					panic(parseErr("call of non-identifier"))
				}
			}
			l.next()
			var args []Expr
			for l.peek().s != ")" {
				args = append(args, l.parse(0))
				if l.peek().s == "," {
					l.next()
				}
			}
			l.expect(")")
			x = &ECall{Fn: id.Name, Args: args}
		case "[":
			l.next()
			var lo, hi Expr
			if l.peek().s != ":" {
				lo = l.parse(0)
			}
			if l.peek().s == ":" {
				l.next()
				if l.peek().s != "]" {
					hi = l.parse(0)
				}
				l.expect("]")
				x = &ESlice{X: x, Lo: lo, Hi: hi}
			} else {
				l.expect("]")
				x = &EIndex{X: x, I: lo}
			}
		default:
			return x
		}
	}
}
