package main

// SMT-LIB term construction. Terms are strings tagged with their sort; Go integer
// values are bit-vectors of their width (machine arithmetic is modelled exactly).

import (
	"fmt"
	"strings"
)

const (
	SBool  = "Bool"
	SInt   = "Int"
	SF64   = "(_ FloatingPoint 11 53)"
	SF32   = "(_ FloatingPoint 8 24)"
	SSlice = "Slice"
	SStr   = "Str"
	SIface = "Iface"
	SRef   = "Int"
	SBV64  = "(_ BitVec 64)"
	SBV8   = "(_ BitVec 8)"
	SBytes = "(Array (_ BitVec 64) (_ BitVec 8))"
)

func SBV(n int) string { return fmt.Sprintf("(_ BitVec %d)", n) }

func bvWidth(sort string) int {
	var n int
	if _, err := fmt.Sscanf(sort, "(_ BitVec %d)", &n); err == nil {
		return n
	}
	return 0
}

func SArr(idx, el string) string { return "(Array " + idx + " " + el + ")" }

// Term is an SMT term with its sort. Signed is meaningful for bit-vectors that
// come from Go values (ordering, extension, division, shifts).
type Term struct {
	S      string
	Sort   string
	Signed bool
}

func (t Term) String() string { return t.S }

func T(s, sort string) Term { return Term{S: s, Sort: sort} }

var (
	True  = Term{S: "true", Sort: SBool}
	False = Term{S: "false", Sort: SBool}
)

func app(f string, sort string, args ...Term) Term {
	var b strings.Builder
	b.WriteString("(")
	b.WriteString(f)
	for _, a := range args {
		b.WriteString(" ")
		b.WriteString(a.S)
	}
	b.WriteString(")")
	return Term{S: b.String(), Sort: sort}
}

func And(ts ...Term) Term {
	var xs []Term
	for _, t := range ts {
		if t.S == "true" {
			continue
		}
		if t.S == "false" {
			return False
		}
		xs = append(xs, t)
	}
	switch len(xs) {
	case 0:
		return True
	case 1:
		return xs[0]
	}
	return app("and", SBool, xs...)
}

func Or(ts ...Term) Term {
	var xs []Term
	for _, t := range ts {
		if t.S == "false" {
			continue
		}
		if t.S == "true" {
			return True
		}
		xs = append(xs, t)
	}
	switch len(xs) {
	case 0:
		return False
	case 1:
		return xs[0]
	}
	return app("or", SBool, xs...)
}

func Not(t Term) Term {
	if t.S == "true" {
		return False
	}
	if t.S == "false" {
		return True
	}
	if strings.HasPrefix(t.S, "(not ") {
		return Term{S: t.S[5 : len(t.S)-1], Sort: SBool}
	}
	return app("not", SBool, t)
}

func Implies(a, b Term) Term {
	if a.S == "true" {
		return b
	}
	if a.S == "false" || b.S == "true" {
		return True
	}
	return app("=>", SBool, a, b)
}

func Eq(a, b Term) Term {
	if a.S == b.S {
		return True
	}
	if a.Sort == SF64 || a.Sort == SF32 {
		// structural equality on floats is bit equality except NaN; Go == is fp.eq
		return app("fp.eq", SBool, a, b)
	}
	return app("=", SBool, a, b)
}

// IdEq is identity (SMT =) even on floats.
func IdEq(a, b Term) Term {
	if a.S == b.S {
		return True
	}
	return app("=", SBool, a, b)
}

func Ite(c, a, b Term) Term {
	if c.S == "true" {
		return a
	}
	if c.S == "false" {
		return b
	}
	if a.S == b.S {
		return a
	}
	t := app("ite", a.Sort, c, a, b)
	t.Signed = a.Signed
	return t
}

func BVLit(v uint64, width int) Term {
	if width%4 == 0 {
		h := fmt.Sprintf("%0*x", width/4, v)
		if len(h) > width/4 {
			h = h[len(h)-width/4:]
		}
		return Term{S: "#x" + h, Sort: SBV(width)}
	}
	return Term{S: fmt.Sprintf("(_ bv%d %d)", v, width), Sort: SBV(width)}
}

func IntLit(v int64) Term {
	if v < 0 {
		return Term{S: fmt.Sprintf("(- %d)", -v), Sort: SInt}
	}
	return Term{S: fmt.Sprintf("%d", v), Sort: SInt}
}

func BoolLit(b bool) Term {
	if b {
		return True
	}
	return False
}

func Select(a, i Term) Term {
	// (Array I E)
	el := arrayElem(a.Sort)
	return app("select", el, a, i)
}

func Store(a, i, v Term) Term { return app("store", a.Sort, a, i, v) }

// arrayElem returns the element sort of "(Array I E)".
func arrayElem(sort string) string {
	_, e := splitArray(sort)
	return e
}

func splitArray(sort string) (string, string) {
	if !strings.HasPrefix(sort, "(Array ") {
		panic("not an array sort: " + sort)
	}
	body := sort[len("(Array ") : len(sort)-1]
	// split into two s-expressions
	depth := 0
	for i, c := range body {
		switch c {
		case '(':
			depth++
		case ')':
			depth--
		case ' ':
			if depth == 0 {
				return body[:i], body[i+1:]
			}
		}
	}
	panic("bad array sort " + sort)
}

// bit-vector helpers
func bvbin(op string, a, b Term) Term {
	t := app(op, a.Sort, a, b)
	t.Signed = a.Signed
	return t
}

func bvcmp(op string, a, b Term) Term { return app(op, SBool, a, b) }

func Lt(a, b Term) Term {
	switch {
	case a.Sort == SInt:
		return app("<", SBool, a, b)
	case a.Sort == SF64 || a.Sort == SF32:
		return app("fp.lt", SBool, a, b)
	case a.Signed:
		return bvcmp("bvslt", a, b)
	default:
		return bvcmp("bvult", a, b)
	}
}
func Le(a, b Term) Term {
	switch {
	case a.Sort == SInt:
		return app("<=", SBool, a, b)
	case a.Sort == SF64 || a.Sort == SF32:
		return app("fp.leq", SBool, a, b)
	case a.Signed:
		return bvcmp("bvsle", a, b)
	default:
		return bvcmp("bvule", a, b)
	}
}
func Gt(a, b Term) Term { return Lt(b, a) }
func Ge(a, b Term) Term { return Le(b, a) }

// Resize converts a bit-vector to another width following Go conversion rules
// (sign extension iff the source is signed).
func Resize(a Term, width int, signed bool) Term {
	w := bvWidth(a.Sort)
	var t Term
	switch {
	case w == width:
		t = a
	case w > width:
		t = Term{S: fmt.Sprintf("((_ extract %d 0) %s)", width-1, a.S), Sort: SBV(width)}
	case a.Signed:
		t = Term{S: fmt.Sprintf("((_ sign_extend %d) %s)", width-w, a.S), Sort: SBV(width)}
	default:
		t = Term{S: fmt.Sprintf("((_ zero_extend %d) %s)", width-w, a.S), Sort: SBV(width)}
	}
	t.Signed = signed
	return t
}

func sanitize(s string) string {
	var b strings.Builder
	for _, c := range s {
		switch {
		case c >= 'a' && c <= 'z', c >= 'A' && c <= 'Z', c >= '0' && c <= '9', c == '_':
			b.WriteRune(c)
		case c == '.' || c == '/':
			b.WriteRune('_')
		case c == '*':
			b.WriteString("P")
		case c == '[':
			b.WriteString("L")
		case c == ']':
			b.WriteString("R")
		case c == '$':
			b.WriteString("S")
		default:
			b.WriteString("_")
		}
	}
	return b.String()
}

func sortID(sort string) string {
	switch sort {
	case SBool:
		return "bool"
	case SInt:
		return "int"
	case SF64:
		return "f64"
	case SF32:
		return "f32"
	}
	if w := bvWidth(sort); w > 0 {
		return fmt.Sprintf("bv%d", w)
	}
	if strings.HasPrefix(sort, "(Array ") {
		i, e := splitArray(sort)
		return "arr_" + sortID(i) + "_" + sortID(e)
	}
	return sanitize(sort)
}
