package main

import (
	"fmt"
	"regexp"
	"go/types"
	"sort"
	"strings"

	"golang.org/x/tools/go/ssa"
)

type FuncResult struct {
	Name        string
	Contract    *Contract
	Obligations []*Obligation
	Unsupported string
	UnknownCalls []string
	Axioms      []string
	Assumed     []string
}

func (e *Engine) newFX(fn *ssa.Function, name string, c *Contract) *FX {
	return &FX{e: e, fn: fn, name: name, c: c,
		compSorts: map[string]string{}, knownComps: map[string]bool{}, epochConsts: map[string]Term{},
		obCount: map[string]int{}, inputs: map[string]string{}, usesAx: map[string]bool{}, usedAssumed: map[string]bool{}, bufSlices: map[string]Term{},
		invAssumed: map[string]bool{}, invBroken: map[string]bool{}, invStoreReach: map[string]Term{}}
}

// VerifyFunc generates the obligations of one function under its contract.
func (e *Engine) VerifyFunc(fn *ssa.Function, c *Contract) (res *FuncResult) {
	name := e.fnName(fn)
	res = &FuncResult{Name: name, Contract: c}
	var known map[string]bool
	var sorts map[string]string
	// two passes: the first discovers the state components the function touches, so that the
	// second can havoc/merge them precisely from the start
	for pass := 0; pass < 2; pass++ {
		fx := e.newFX(fn, name, c)
		if known != nil {
			for k := range known {
				fx.knownComps[k] = true
			}
			for k, v := range sorts {
				fx.compSorts[k] = v
			}
		}
		for _, g := range e.CS.Ghosts {
			fx.knownComps["G:"+g.Name] = true
			fx.compSorts["G:"+g.Name] = g.Sort
		}
		fx.knownComps["$alloc"] = true
		fx.compSorts["$alloc"] = SInt
		err := fx.runTop()
		if err != "" {
			res.Unsupported = err
			return res
		}
		known, sorts = fx.knownComps, fx.compSorts
		if pass == 1 {
			fx.buildScripts()
			if fx.topFrame != nil {
				ri := &ReplayInfo{Fn: fn, Params: fx.topFrame.params}
				// results predicted by the model are only comparable with a real run when nothing
				// the function does is abstracted: no assumed contract applied, no ghost state read
				ri.ModelDependent = len(fx.usedAssumed) > 0 || fx.ghostUsed
				if t, ok := fx.epochConsts["e0|M:bv8"]; ok {
					ri.MemBV8 = t.S
				}
				for _, ob := range fx.obs {
					ob.Replay = ri
				}
			}
			res.Obligations = fx.obs
			res.UnknownCalls = fx.unknownCalls
			for a := range fx.usesAx {
				res.Axioms = append(res.Axioms, a)
			}
			sort.Strings(res.Axioms)
			for a := range fx.usedAssumed {
				res.Assumed = append(res.Assumed, a)
			}
			sort.Strings(res.Assumed)
		}
	}
	return res
}

func (fx *FX) runTop() (errmsg string) {
	defer func() {
		if r := recover(); r != nil {
			switch x := r.(type) {
			case unsupportedErr:
				errmsg = "unsupported: " + x.msg
			case evalErr:
				errmsg = "contract error: " + x.msg
			default:
				panic(r)
			}
		}
	}()
	e := fx.e
	fn := fx.fn
	c := fx.c
	w := e.W
	activeLogs = nil
	fr := &frame{fx: fx, fn: fn, vals: map[ssa.Value]Val{}, c: c, top: true, cellClo: map[*ssa.Alloc]*Closure{}}
	fx.topFrame = fr
	st := &State{reach: True, cells: map[*ssa.Alloc]Term{}, comps: map[string]Term{}, epoch: "e0"}
	if c != nil {
		for _, ax := range c.Uses {
			fx.usesAx[ax] = true
		}
	}
	for pi, p := range fn.Params {
		pname := p.Name()
		if pname == "_" || pname == "" {
			pname = fmt.Sprintf("blank%d", pi)
		}
		t := fx.declare("p_"+sanitize(pname), w.SortOf(p.Type()))
		t.Signed = isSigned(p.Type())
		fr.params = append(fr.params, Val{T: t, Typ: p.Type()})
		fx.assumeWF(st, t, p.Type())
		fx.inputs[t.S] = "param " + p.Name()
	}
	for _, fv := range fn.FreeVars {
		pt, isPtr := fv.Type().Underlying().(*types.Pointer)
		if isPtr && freeVarReadOnly(fv) {
			t := fx.declare("fv_"+sanitize(fv.Name()), w.SortOf(pt.Elem()))
			t.Signed = isSigned(pt.Elem())
			fx.assumeWF(st, t, pt.Elem())
			fr.freeVals = append(fr.freeVals, Val{Addr: &Addr{Kind: "const", Obj: t, Base: pt.Elem(), FTyp: pt.Elem()}, Typ: fv.Type()})
			continue
		}
		t := fx.declare("fv_"+sanitize(fv.Name()), w.SortOf(fv.Type()))
		fx.assumeWF(st, t, fv.Type())
		if isPtr {
			fx.assume(True, Not(IdEq(t, T("0", SRef))))
		}
		fr.freeVals = append(fr.freeVals, Val{T: t, Typ: fv.Type()})
	}
	fx.oldState = st.clone()
	// preconditions
	if c != nil {
		env := fx.newEnv(fr, st)
		for _, cl := range c.Requires {
			fx.assume(True, fx.evalBool(env, cl.Expr))
		}
		for _, cl := range c.FreeReq {
			fx.assume(True, fx.evalBool(env, cl.Expr))
			if fn.Parent() == nil {
				// on a plain function: an assumed precondition (no call site checks it)
				fx.usedAssumed["free-requires of func "+c.Name+lbl(cl)+" (assumed at entry, not checked at call sites): "+cl.Text] = true
			}
		}
		for _, cl := range c.ClosureInv {
			fx.assume(True, fx.evalBool(env, cl.Expr))
		}
		for _, fsm := range c.FrameSeams {
			fx.usedAssumed["frame seam of "+c.Kind+" "+c.Name+": writes "+fsm[0]+", which the protocol it implements excludes; assumed: "+fsm[1]] = true
		}
		// vacuity guard: the preconditions are satisfiable
		ob := &Obligation{Name: fx.name + ".cover(requires)", Kind: "cover", Func: fx.name, Clause: "preconditions are satisfiable", Expect: "sat", Props: c.Props}
		fx.items = append(fx.items, item{kind: "oblig", ob: ob, reach: True, goal: False})
		fx.obs = append(fx.obs, ob)
	}
	if c != nil {
		env := fx.newEnv(fr, st)
		for _, cl := range c.GhostEntry {
			val := fx.evalExpr(env, cl.Expr)
			srt := fx.compSorts["G:"+cl.Name]
			val = coerce(val, srt, true)
			fx.setComp(st, "G:"+cl.Name, val.T)
		}
	}
	entry := st.clone()
	exits := fx.runBody(fr, st)
	if c != nil {
		for _, x := range exits {
			env := fx.newEnv(fr, x.st)
			env.old = entry
			var rs []Val
			for _, r := range x.results {
				if r.Addr != nil {
					rs = append(rs, Val{T: fx.termOf(fr, x.st, r), Typ: r.Typ})
				} else {
					rs = append(rs, r)
				}
			}
			for k, v := range fx.contractNames(c, nil, fn.Signature, nil, rs, nil) {
				env.names[k] = v
			}
			if len(c.EnsuresPre) > 0 {
				envp := fx.newEnv(fr, x.st)
				envp.old = fx.oldState
				for k, vv := range env.names {
					envp.names[k] = vv
				}
				fx.addAllLoopNames(fr, envp)
				envp.goal = true
				for j, cl := range c.EnsuresPre {
					g := fx.evalBool(envp, cl.Expr)
					fx.oblige(x.st, "post", fmt.Sprintf("ensures-before-exit#%d%s@ret#%d", j+1, lbl(cl), x.idx+1), cl.Text, g, x.pos, propsOr(cl.Props, c.Props))
				}
			}
			if len(c.GhostExit) > 0 {
				envx := fx.newEnv(fr, x.st)
				envx.old = fx.oldState
				for k, vv := range env.names {
					envx.names[k] = vv
				}
				newv := map[string]Term{}
				for _, cl := range c.GhostExit {
					val := fx.evalExpr(envx, cl.Expr)
					val = coerce(val, fx.compSorts["G:"+cl.Name], true)
					newv["G:"+cl.Name] = val.T
				}
				for k, t := range newv {
					fx.setComp(x.st, k, t)
				}
			}
			env.old = fx.oldState
			fx.addAllLoopNames(fr, env)
			env.goal = true
			for j, cl := range c.Ensures {
				g := fx.evalBool(env, cl.Expr)
				fx.oblige(x.st, "post", fmt.Sprintf("ensures#%d%s@ret#%d", j+1, lbl(cl), x.idx+1), cl.Text, g, x.pos, propsOr(cl.Props, c.Props))
				fx.obs[len(fx.obs)-1].ClauseExpr = cl.Expr
				fx.obs[len(fx.obs)-1].ResultVals = rs
			}
			fx.frameObligations(fx.oldState, x)
			fx.typeInvObligations(fr, x)
			for j, cl := range c.ClosureInv {
				g := fx.evalBool(env, cl.Expr)
				fx.oblige(x.st, "post", fmt.Sprintf("closure-invariant#%d@ret#%d", j+1, x.idx+1), cl.Text, g, x.pos, propsOr(cl.Props, c.Props))
			}
		}
		if len(exits) > 0 {
			// vacuity guard: some return is reachable under the preconditions
			// the earliest return in source order (usually the simplest path) must be reachable
			first := exits[0]
			for _, x := range exits {
				if x.pos < first.pos {
					first = x
				}
			}
			ob := &Obligation{Name: fx.name + ".cover(return)", Kind: "cover", Func: fx.name, Clause: "a return is reachable", Expect: "sat", Props: c.Props}
			// some return (the solver may pick whichever path is easiest to satisfy; paths through calls
			// with quantified preconditions would otherwise leave the guard undecided)
			// prefer the earliest return whose path condition is quantifier-free (a path through a call
			// with a quantified precondition can leave the guard undecided although it is satisfiable)
			defs := map[string]string{}
			defRe := regexp.MustCompile(`^\(define-fun (\S+) \(\) \S+ (.*)\)$`)
			for _, it := range fx.items {
				if it.kind == "decl" {
					if m := defRe.FindStringSubmatch(it.text); m != nil {
						defs[m[1]] = m[2]
					}
				}
			}
			memo := map[string]bool{}
			nameRe := regexp.MustCompile(`[A-Za-z_][A-Za-z0-9_!.]*`)
			var quantified func(term string, depth int) bool
			quantified = func(term string, depth int) bool {
				if strings.Contains(term, "(forall ") || strings.Contains(term, "(exists ") {
					return true
				}
				if depth > 200 {
					return true
				}
				for _, n := range nameRe.FindAllString(term, -1) {
					body, ok := defs[n]
					if !ok {
						continue
					}
					v, seen := memo[n]
					if !seen {
						memo[n] = false
						v = quantified(body, depth+1)
						memo[n] = v
					}
					if v {
						return true
					}
				}
				return false
			}
			var best *exitPoint
			for k := range exits {
				x := &exits[k]
				if quantified(x.st.reach.S, 0) {
					continue
				}
				if best == nil || x.pos < best.pos {
					best = x
				}
			}
			if best == nil {
				best = &first
			}
			fx.items = append(fx.items, item{kind: "oblig", ob: ob, reach: best.st.reach, goal: False})
			fx.obs = append(fx.obs, ob)
		}
	}
	return ""
}

// buildScripts renders one SMT-LIB script per obligation.
func (fx *FX) buildScripts() {
	e := fx.e
	var specs strings.Builder
	for _, b := range e.CS.SMT {
		specs.WriteString(b.Text)
	}
	var axs []string
	for a := range fx.usesAx {
		axs = append(axs, a)
	}
	sort.Strings(axs)
	for _, a := range axs {
		if b, ok := e.CS.Axioms[a]; ok {
			specs.WriteString(b.Text)
		} else {
			fx.unsupported = append(fx.unsupported, "unknown axiom set "+a)
		}
	}
	var prefix, qfPrefix strings.Builder
	for _, it := range fx.items {
		switch it.kind {
		case "decl", "assume":
			prefix.WriteString(it.text)
			prefix.WriteString("\n")
			if !(it.kind == "assume" && strings.Contains(it.text, "forall")) {
				qfPrefix.WriteString(it.text)
				qfPrefix.WriteString("\n")
			}
		case "oblig":
			var b strings.Builder
			b.WriteString("; obligation " + it.ob.Name + "\n; clause: " + it.ob.Clause + "\n")
			b.WriteString("(set-option :produce-models true)\n(set-logic ALL)\n")
			rest := prefix.String() + "(assert " + it.reach.S + ")\n" + "(assert (not " + it.goal.S + "))\n"
			tail := specs.String() + e.W.EstablishedFacts(rest) + rest
			if it.ob.Kind == "cover" {
				// vacuity guards are decided on the quantifier-free part of the assumptions
				tail = stripQuantifiedAsserts(specs.String()) + qfPrefix.String() + "(assert " + it.reach.S + ")\n"
			}
			pre := e.W.Preamble(tail)
			if it.ob.Kind == "cover" {
				pre = stripQuantifiedAsserts(pre)
			}
			b.WriteString(pre)
			b.WriteString(tail)
			b.WriteString("(check-sat)\n")
			it.ob.Script = b.String()
			it.ob.Inputs = fx.inputs
		}
	}
}

// VerifyLemma: a goal about spec functions only.
func (e *Engine) VerifyLemma(c *Contract) *FuncResult {
	res := &FuncResult{Name: "lemma " + c.Name, Contract: c}
	fx := e.newFX(nil, "lemma."+c.Name, c)
	for _, ax := range c.Uses {
		fx.usesAx[ax] = true
	}
	func() {
		defer func() {
			if r := recover(); r != nil {
				switch x := r.(type) {
				case unsupportedErr:
					res.Unsupported = "unsupported: " + x.msg
				case evalErr:
					res.Unsupported = "contract error: " + x.msg
				default:
					panic(r)
				}
			}
		}()
		st := &State{reach: True, cells: map[*ssa.Alloc]Term{}, comps: map[string]Term{}, epoch: "e0"}
		env := fx.newEnv(nil, st)
		env.onlyNames = true
		for _, cl := range c.Requires {
			fx.assume(True, fx.evalBool(env, cl.Expr))
		}
		for j, cl := range c.Asserts {
			fx.oblige(st, "lemma", fmt.Sprintf("assert#%d%s", j+1, lbl(cl)), cl.Text, fx.evalBool(env, cl.Expr), 0, propsOr(cl.Props, c.Props))
		}
	}()
	if res.Unsupported == "" {
		fx.buildScripts()
		res.Obligations = fx.obs
	}
	return res
}

// frameObligations: a function with a `pure` or `modifies` clause leaves every other state
// component unchanged on the objects that existed when it was called.
func (fx *FX) frameObligations(entry *State, x exitPoint) {
	c := fx.c
	if c == nil || !c.HasMod {
		return
	}
	allowed := map[string]bool{"$alloc": true}
	star := false
	excluded := map[string]bool{}
	for _, m := range c.Modifies {
		if m == "*" {
			star = true
			continue
		}
		if strings.HasPrefix(m, "-") {
			for _, k := range fx.expandCompName(m[1:]) {
				excluded[k] = true
			}
			continue
		}
		for _, k := range fx.expandCompName(m) {
			allowed[k] = true
		}
	}
	var keys []string
	for k := range fx.knownComps {
		// "*" does not cover ghost variables: they are only changed when named (the same rule the
		// havoc at call sites follows; a ghost changed under "*" alone would make its postconditions
		// contradict the caller's unchanged value)
		if star && !excluded[k] && (!strings.HasPrefix(k, "G:") || fx.e.envGhost(k)) {
			continue
		}
		keys = append(keys, k)
	}
	sort.Strings(keys)
	alloc0 := fx.comp(entry, "$alloc", SInt)
	for _, k := range keys {
		if allowed[k] || strings.HasPrefix(k, "IT:") {
			continue // IT: hidden string-range iterators are locals of the function
		}
		e0 := fx.comp(entry, k, fx.compSorts[k])
		e1 := fx.comp(x.st, k, fx.compSorts[k])
		if e0.S == e1.S {
			continue
		}
		var goal Term
		switch {
		case strings.HasPrefix(k, "M:") || strings.HasPrefix(k, "H:") || strings.HasPrefix(k, "B:"):
			goal = T(fmt.Sprintf("(forall ((q_r Int)) (=> (and (<= 0 q_r) (< q_r %s)) (= (select %s q_r) (select %s q_r))))", alloc0.S, e1.S, e0.S), SBool)
		default:
			goal = IdEq(e0, e1)
		}
		fx.oblige(x.st, "frame", fmt.Sprintf("frame(%s)@ret#%d", k, x.idx+1), "unchanged outside the modifies clause: "+k, goal, x.pos, nil)
	}
}

// stripQuantifiedAsserts drops top-level (assert (forall ...)) forms from SMT text.
func stripQuantifiedAsserts(text string) string {
	var b strings.Builder
	p := 0
	for p < len(text) {
		p = skipWS(text, p)
		if p >= len(text) {
			break
		}
		s, e := readSexp(text, p)
		p = e
		if strings.HasPrefix(s, "(assert") && strings.Contains(s, "forall") {
			continue
		}
		b.WriteString(s)
		b.WriteString("\n")
	}
	return b.String()
}

// typeInvObligations: a function that wrote a field mentioned by an object invariant re-establishes
// the invariant before returning successfully (last result nil when it is an error).
func (fx *FX) typeInvObligations(fr *frame, x exitPoint) {
	seen := map[string]bool{}
	for _, os := range fx.invObjs {
		k := os[0] + "|" + os[1]
		if seen[k] {
			continue
		}
		seen[k] = true
		ti := fx.typeInvFor(os[1])
		typ := fx.e.lookupType(ti.Type)
		if typ == nil {
			continue
		}
		fx.inInv = true
		env := fx.newEnv(nil, x.st)
		env.onlyNames = true
		obj := T(os[0], SRef)
		env.names["self"] = Val{T: obj, Typ: types.NewPointer(typ)}
		g := fx.evalBool(env, ti.Expr)
		fx.inInv = false
		ok := True
		if n := len(x.results); n > 0 && x.results[n-1].T.Sort == SIface {
			if types.Identical(fx.fn.Signature.Results().At(n-1).Type(), types.Universe.Lookup("error").Type()) {
				ok = IfaceIsNil(x.results[n-1].T)
			}
		}
		if sr, has := fx.invStoreReach[k]; has {
			ok = And(ok, sr)
		}
		fx.oblige(x.st, "post", fmt.Sprintf("type-invariant(%s)@ret#%d", ti.Type, x.idx+1), "object invariant re-established: "+ti.Text, Implies(ok, g), x.pos, nil)
	}
}
