package main

// Replay of solver counterexamples against the real code.
//
// For a refuted obligation of a plain function (no receiver, no closure) whose parameters are
// integers, booleans, floats, strings and byte slices, the model's argument values are read back
// with (get-value), turned into Go literals, and the unmodified function is called from a test that
// is injected into the package with `go test -overlay` (nothing is written to the repository).
//
// A replay confirms the violation when the real code visibly breaks the obligation:
//   safe      the call panics
//   variant   the call does not return within the replay timeout (or panics)
//   post      the clause, when it only uses parameters, results, len, indexing, arithmetic and
//             comparisons, is re-evaluated in Go on the observed results and is false; a panic
//             also counts (no function under contract may panic unless its contract says so)
// Anything else is reported as not confirmed; the VIOLATION line then ends with
// no-failing-input-found and the replay file carries the inputs that were tried.

import (
	"context"
	"encoding/json"
	"fmt"
	"go/types"
	"math"
	"os"
	"os/exec"
	"path/filepath"
	"strconv"
	"strings"
	"time"

	"golang.org/x/tools/go/ssa"
)

type ReplayResult struct {
	Confirmed bool              `json:"confirmed"`
	Inputs    map[string]string `json:"inputs,omitempty"`
	Test      string            `json:"test,omitempty"`
	Source    string            `json:"test_source,omitempty"`
	Output    string            `json:"output,omitempty"`
	Note      string            `json:"note,omitempty"`
}

type ReplayInfo struct {
	Fn      *ssa.Function
	Params  []Val
	MemBV8  string // name of the entry byte memory constant ("" if the function never touched it)
	ModelDependent bool // the function's behaviour is partly abstracted (assumed contracts, ghost state)
	Results int
}

const replayMaxLen = 1 << 16

func replayableType(t types.Type) string {
	switch u := t.Underlying().(type) {
	case *types.Basic:
		switch {
		case u.Info()&types.IsInteger != 0:
			return "int"
		case u.Info()&types.IsBoolean != 0:
			return "bool"
		case u.Kind() == types.Float64:
			return "float64"
		case u.Info()&types.IsString != 0:
			return "string"
		}
	case *types.Slice:
		if b, ok := u.Elem().Underlying().(*types.Basic); ok && (b.Kind() == types.Uint8) {
			return "bytes"
		}
	}
	return ""
}

// sexpr: minimal S-expression reader for (get-value) answers
type sx struct {
	atom string
	list []*sx
}

func parseSx(s string) []*sx {
	var stack [][]*sx
	cur := []*sx{}
	i := 0
	for i < len(s) {
		c := s[i]
		switch {
		case c == '(':
			stack = append(stack, cur)
			cur = []*sx{}
			i++
		case c == ')':
			if len(stack) == 0 {
				return cur
			}
			n := &sx{list: cur}
			if n.list == nil {
				n.list = []*sx{}
			}
			cur = append(stack[len(stack)-1], n)
			stack = stack[:len(stack)-1]
			i++
		case c == ' ' || c == '\n' || c == '\t' || c == '\r':
			i++
		case c == '"':
			j := i + 1
			for j < len(s) && s[j] != '"' {
				j++
			}
			cur = append(cur, &sx{atom: s[i:min(j+1, len(s))]})
			i = j + 1
		default:
			j := i
			for j < len(s) && !strings.ContainsRune("() \n\t\r", rune(s[j])) {
				j++
			}
			cur = append(cur, &sx{atom: s[i:j]})
			i = j
		}
	}
	return cur
}

func (x *sx) String() string {
	if x.list == nil {
		return x.atom
	}
	var parts []string
	for _, e := range x.list {
		parts = append(parts, e.String())
	}
	return "(" + strings.Join(parts, " ") + ")"
}

// bvValue parses #x.. / #b.. / (_ bvN w) into an unsigned value and width.
func bvValue(x *sx) (uint64, int, bool) {
	if x.list == nil {
		a := x.atom
		if strings.HasPrefix(a, "#x") {
			v, err := strconv.ParseUint(a[2:], 16, 64)
			return v, 4 * (len(a) - 2), err == nil
		}
		if strings.HasPrefix(a, "#b") {
			v, err := strconv.ParseUint(a[2:], 2, 64)
			return v, len(a) - 2, err == nil
		}
		return 0, 0, false
	}
	if len(x.list) == 3 && x.list[0].atom == "_" && strings.HasPrefix(x.list[1].atom, "bv") {
		v, err := strconv.ParseUint(x.list[1].atom[2:], 10, 64)
		w, _ := strconv.Atoi(x.list[2].atom)
		return v, w, err == nil
	}
	return 0, 0, false
}

func fpValue(x *sx) (float64, bool) {
	if x.list != nil && len(x.list) == 4 && x.list[0].atom == "fp" {
		s, _, ok1 := bvValue(x.list[1])
		e, _, ok2 := bvValue(x.list[2])
		m, _, ok3 := bvValue(x.list[3])
		if ok1 && ok2 && ok3 {
			return math.Float64frombits(s<<63 | e<<52 | m), true
		}
	}
	if x.list != nil && len(x.list) == 4 && x.list[0].atom == "_" {
		switch x.list[1].atom {
		case "+zero":
			return 0, true
		case "-zero":
			return math.Copysign(0, -1), true
		case "+oo":
			return math.Inf(1), true
		case "-oo":
			return math.Inf(-1), true
		case "NaN":
			return math.NaN(), true
		}
	}
	return 0, false
}

// getValues runs the script with (get-value (terms...)) appended and returns the answers in order.
func getValues(dir, tag, script string, terms []string, timeout time.Duration) ([]*sx, string) {
	if len(terms) == 0 {
		return nil, ""
	}
	file := filepath.Join(dir, tag+".smt2")
	body := script + "(get-value (" + strings.Join(terms, " ") + "))\n"
	os.WriteFile(file, []byte(body), 0o644)
	// cvc5 needs produce-models; the scripts already set it when they were built for the race
	for _, s := range []solverSpec{solvers[0], solvers[3], solvers[2]} {
		if !replayDeadline.IsZero() && time.Now().After(replayDeadline) {
			break
		}
		r := runSolver(context.Background(), s, file, timeout)
		if r.verdict != "sat" {
			continue
		}
		out := r.out
		i := strings.Index(out, "sat")
		xs := parseSx(out[i+3:])
		if len(xs) == 0 || xs[0].list == nil || len(xs[0].list) != len(terms) {
			continue
		}
		var vals []*sx
		ok := true
		for _, p := range xs[0].list {
			if p.list == nil || len(p.list) != 2 {
				ok = false
				break
			}
			vals = append(vals, p.list[1])
		}
		if ok {
			return vals, s.name
		}
	}
	return nil, ""
}

func goBytesLit(b []byte) string {
	var sb strings.Builder
	sb.WriteString("[]byte{")
	for i, c := range b {
		if i > 0 {
			sb.WriteString(", ")
		}
		fmt.Fprintf(&sb, "0x%02x", c)
	}
	sb.WriteString("}")
	return sb.String()
}

// replay budget: model read-back re-runs solvers; keep the whole check responsive on badly broken trees
var replayDeadline time.Time
var replaySpent time.Duration

const replayBudgetPerCheck = 240 * time.Second
const replayBudgetPerObligation = 75 * time.Second

func (e *Engine) replay(ob *Obligation, dir string) *ReplayResult {
	rr := &ReplayResult{Inputs: map[string]string{}}
	if replaySpent > replayBudgetPerCheck {
		rr.Note = "replay skipped: the replay time budget of this check run is used up"
		return rr
	}
	t0 := time.Now()
	replayDeadline = t0.Add(replayBudgetPerObligation)
	defer func() { replaySpent += time.Since(t0) }()
	ri := ob.Replay
	if ri == nil || ri.Fn == nil {
		rr.Note = "replay not available: no parameter information for this obligation"
		return rr
	}
	fn := ri.Fn
	if fn.Signature.Recv() != nil || fn.Parent() != nil || len(fn.FreeVars) > 0 {
		rr.Note = "replay not available: methods and closures need an object graph, only plain functions over values are replayed"
		return rr
	}
	kinds := make([]string, len(ri.Params))
	for i, p := range ri.Params {
		kinds[i] = replayableType(p.Typ)
		if kinds[i] == "" {
			rr.Note = fmt.Sprintf("replay not available: parameter %s has type %s", fn.Params[i].Name(), p.Typ)
			return rr
		}
	}
	const tail = "(check-sat)\n"
	if !strings.HasSuffix(ob.Script, tail) {
		rr.Note = "replay not available: unexpected script shape"
		return rr
	}
	os.MkdirAll(dir, 0o755)
	base := ob.Script[:len(ob.Script)-len(tail)]
	// pass 1: scalars and lengths
	var terms []string
	for i, p := range ri.Params {
		switch kinds[i] {
		case "int", "bool", "float64":
			terms = append(terms, p.T.S)
		case "string":
			terms = append(terms, "(st_len "+p.T.S+")")
		case "bytes":
			terms = append(terms, "(s_len "+p.T.S+")")
		}
	}
	// predicted results (post obligations): integers, booleans, and whether an error is nil
	nparamTerms := len(terms)
	resKinds := []string{}
	predictable := ob.Kind == "post" && !ri.ModelDependent && len(ob.ResultVals) == fn.Signature.Results().Len() && len(ob.ResultVals) > 0
	if predictable {
		for i, r := range ob.ResultVals {
			rt := fn.Signature.Results().At(i).Type()
			k := replayableType(rt)
			switch {
			case k == "int" || k == "bool":
				resKinds = append(resKinds, k)
				terms = append(terms, r.T.S)
			case types.Identical(rt, types.Universe.Lookup("error").Type()):
				resKinds = append(resKinds, "error")
				terms = append(terms, "(= "+r.T.S+" if_nil)")
			case k == "string":
				resKinds = append(resKinds, "strlen")
				terms = append(terms, "(st_len "+r.T.S+")")
			case k == "bytes":
				resKinds = append(resKinds, "byteslen")
				terms = append(terms, "(s_len "+r.T.S+")")
			default:
				predictable = false
			}
		}
		if !predictable {
			terms = terms[:nparamTerms]
		}
	}
	// prefer a small counterexample: bound the lengths first, then retry unbounded
	var vals []*sx
	var solver string
	type attempt struct {
		bound int
		first bool
	}
	var attempts []attempt
	if len(ob.FirstIter) > 0 {
		attempts = append(attempts, attempt{16, true}, attempt{4096, true})
	}
	attempts = append(attempts, attempt{16, false}, attempt{256, false}, attempt{4096, false}, attempt{0, false})
	for _, at := range attempts {
		bound := at.bound
		b := base
		if at.first {
			for _, f := range ob.FirstIter {
				b += "(assert " + f + ")\n"
			}
		}
		if bound > 0 {
			any := false
			for i, p := range ri.Params {
				switch kinds[i] {
				case "string":
					b += fmt.Sprintf("(assert (bvule (st_len %s) #x%016x))\n", p.T.S, bound)
					any = true
				case "bytes":
					b += fmt.Sprintf("(assert (bvule (s_len %s) #x%016x))\n", p.T.S, bound)
					any = true
				}
			}
			if !any && !at.first {
				continue
			}
		}
		if time.Now().After(replayDeadline) {
			break
		}
		vals, solver = getValues(dir, "pass1", b+tail, terms, 10*time.Second)
		if vals != nil {
			base = b
			break
		}
	}
	if vals == nil {
		rr.Note = "no model values could be read back (solver did not reproduce the model within the replay timeout)"
		return rr
	}
	args := make([]string, len(ri.Params))
	var fix []string
	lens := make([]int, len(ri.Params))
	for i, p := range ri.Params {
		v := vals[i]
		switch kinds[i] {
		case "int":
			u, w, ok := bvValue(v)
			if !ok {
				rr.Note = "cannot read model value " + v.String()
				return rr
			}
			fix = append(fix, fmt.Sprintf("(= %s %s)", p.T.S, v.String()))
			tn := types.TypeString(p.Typ, func(*types.Package) string { return "" })
			if isSigned(p.Typ) {
				sv := int64(u)
				if w < 64 && u&(1<<(uint(w)-1)) != 0 {
					sv = int64(u) - (1 << uint(w))
				}
				args[i] = fmt.Sprintf("%s(%d)", tn, sv)
				if sv == math.MinInt64 {
					args[i] = fmt.Sprintf("%s(math.MinInt64)", tn)
				}
			} else {
				args[i] = fmt.Sprintf("%s(%d)", tn, u)
			}
		case "bool":
			args[i] = v.String()
			fix = append(fix, fmt.Sprintf("(= %s %s)", p.T.S, v.String()))
		case "float64":
			f, ok := fpValue(v)
			if !ok {
				rr.Note = "cannot read model value " + v.String()
				return rr
			}
			args[i] = fmt.Sprintf("math.Float64frombits(0x%016x)", math.Float64bits(f))
		case "string", "bytes":
			u, _, ok := bvValue(v)
			if !ok || u > replayMaxLen {
				rr.Note = fmt.Sprintf("model value for len(%s) is %s: too large to materialise", fn.Params[i].Name(), v.String())
				return rr
			}
			lens[i] = int(u)
			sel := "st_len"
			if kinds[i] == "bytes" {
				sel = "s_len"
			}
			fix = append(fix, fmt.Sprintf("(= (%s %s) %s)", sel, p.T.S, v.String()))
		}
	}
	// pass 2: contents, with the scalars fixed so that the second model agrees with the first
	terms = nil
	for i, p := range ri.Params {
		for k := 0; k < lens[i]; k++ {
			switch kinds[i] {
			case "string":
				terms = append(terms, fmt.Sprintf("(select (st_arr %s) (bvadd (st_off %s) #x%016x))", p.T.S, p.T.S, k))
			case "bytes":
				if ri.MemBV8 == "" {
					terms = append(terms, "#x00")
				} else {
					terms = append(terms, fmt.Sprintf("(select (select %s (s_reg %s)) (bvadd (s_off %s) #x%016x))", ri.MemBV8, p.T.S, p.T.S, k))
				}
			}
		}
	}
	var content []*sx
	if len(terms) > 0 {
		s2 := base
		for _, f := range fix {
			s2 += "(assert " + f + ")\n"
		}
		content, _ = getValues(dir, "pass2", s2+tail, terms, 30*time.Second)
		if content == nil {
			rr.Note = "model contents could not be read back"
			return rr
		}
	}
	ci := 0
	for i := range ri.Params {
		if kinds[i] != "string" && kinds[i] != "bytes" {
			continue
		}
		buf := make([]byte, lens[i])
		for k := range buf {
			u, _, _ := bvValue(content[ci])
			buf[k] = byte(u)
			ci++
		}
		if kinds[i] == "string" {
			args[i] = "string(" + goBytesLit(buf) + ")"
		} else {
			args[i] = goBytesLit(buf)
			if lens[i] == 0 {
				args[i] = "[]byte{}"
			}
		}
	}
	for i, a := range args {
		name := fn.Params[i].Name()
		show := a
		if len(show) > 400 {
			show = show[:400] + "..."
		}
		rr.Inputs[name] = show
	}
	// the test
	pkgDir := ""
	if fn.Pkg != nil {
		pkgDir = strings.TrimPrefix(strings.TrimPrefix(fn.Pkg.Pkg.Path(), modPath), "/")
	}
	nres := fn.Signature.Results().Len()
	var lhs []string
	for i := 0; i < nres; i++ {
		lhs = append(lhs, fmt.Sprintf("r%d", i))
	}
	call := fn.Name() + "(" + strings.Join(args, ", ") + ")"
	var post string
	if ob.Kind == "post" && ob.ClauseExpr != nil {
		names := map[string]string{}
		for i, p := range fn.Params {
			names[p.Name()] = fmt.Sprintf("a%d", i)
		}
		for i := 0; i < nres; i++ {
			names[fmt.Sprintf("r%d", i)] = fmt.Sprintf("r%d", i)
			if n := fn.Signature.Results().At(i).Name(); n != "" && n != "_" {
				names[n] = fmt.Sprintf("r%d", i)
			}
		}
		if nres == 1 {
			names["result"] = "r0"
		}
		if nres > 0 && types.Identical(fn.Signature.Results().At(nres-1).Type(), types.Universe.Lookup("error").Type()) {
			if _, ok := names["err"]; !ok {
				names["err"] = fmt.Sprintf("r%d", nres-1)
			}
		}
		if g, ok := exprToGo(ob.ClauseExpr, names); ok {
			post = g
		}
	}
	var src strings.Builder
	fmt.Fprintf(&src, "package %s\n\nimport (\n\t\"fmt\"\n\t\"math\"\n\t\"testing\"\n)\n\nvar _ = math.Pi\n\n", fn.Pkg.Pkg.Name())
	fmt.Fprintf(&src, "// replay of the counterexample for obligation %s\nfunc TestGovcReplay(t *testing.T) {\n", ob.Name)
	src.WriteString("\tdefer func() {\n\t\tif r := recover(); r != nil {\n\t\t\tfmt.Printf(\"GOVC-REPLAY panic: %v\\n\", r)\n\t\t}\n\t}()\n")
	for i, a := range args {
		fmt.Fprintf(&src, "\ta%d := %s\n", i, a)
	}
	var callArgs []string
	for i := range args {
		callArgs = append(callArgs, fmt.Sprintf("a%d", i))
	}
	call = fn.Name() + "(" + strings.Join(callArgs, ", ") + ")"
	if nres > 0 {
		fmt.Fprintf(&src, "\t%s := %s\n", strings.Join(lhs, ", "), call)
		for _, l := range lhs {
			fmt.Fprintf(&src, "\t_ = %s\n", l)
		}
		fmt.Fprintf(&src, "\tfmt.Printf(\"GOVC-REPLAY returned: %s\\n\", %s)\n", strings.Repeat("%#v ", nres), strings.Join(lhs, ", "))
	} else {
		fmt.Fprintf(&src, "\t%s\n\tfmt.Println(\"GOVC-REPLAY returned\")\n", call)
	}
	if predictable {
		for i, k := range resKinds {
			switch k {
			case "int":
				fmt.Fprintf(&src, "\tfmt.Printf(\"GOVC-REPLAY r%d=%%d\\n\", int64(r%d))\n", i, i)
			case "bool":
				fmt.Fprintf(&src, "\tfmt.Printf(\"GOVC-REPLAY r%d=%%v\\n\", r%d)\n", i, i)
			case "error":
				fmt.Fprintf(&src, "\tfmt.Printf(\"GOVC-REPLAY r%d=%%v\\n\", r%d == nil)\n", i, i)
			case "strlen", "byteslen":
				fmt.Fprintf(&src, "\tfmt.Printf(\"GOVC-REPLAY r%d=%%d\\n\", len(r%d))\n", i, i)
			}
		}
	}
	if post != "" {
		fmt.Fprintf(&src, "\tfmt.Printf(\"GOVC-REPLAY clause: %%v\\n\", %s)\n", post)
	}
	src.WriteString("}\n")
	testFile := filepath.Join(dir, "replay_"+sanitize(ob.Name)+"_test.go")
	os.WriteFile(testFile, []byte(src.String()), 0o644)
	rr.Test = testFile
	rr.Source = src.String()
	if len(rr.Source) > 20000 {
		rr.Source = rr.Source[:20000] + "\n// (truncated)"
	}
	target := filepath.Join(e.RepoDir, pkgDir, "zz_govc_replay_test.go")
	ov, _ := json.Marshal(map[string]interface{}{"Replace": map[string]string{target: testFile}})
	ovFile := filepath.Join(dir, "overlay.json")
	os.WriteFile(ovFile, ov, 0o644)
	ctx, cancel := context.WithTimeout(context.Background(), 120*time.Second)
	defer cancel()
	cmd := exec.CommandContext(ctx, "go", "test", "-overlay", ovFile, "-v", "-vet=off", "-count=1", "-timeout", "20s", "-run", "^TestGovcReplay$", "./"+pkgDir)
	cmd.Dir = e.RepoDir
	cmd.Env = append(osEnviron(), "GOFLAGS=-mod=mod", "GOPROXY=off", "GOSUMDB=off", "GOTOOLCHAIN=local")
	out, _ := cmd.CombinedOutput()
	text := string(out)
	if len(text) > 4000 {
		text = text[:4000]
	}
	rr.Output = text
	panicked := strings.Contains(text, "GOVC-REPLAY panic:") || strings.Contains(text, "fatal error:")
	timedOut := strings.Contains(text, "test timed out")
	clauseFalse := strings.Contains(text, "GOVC-REPLAY clause: false")
	switch {
	case panicked:
		rr.Confirmed = true
		rr.Note = "the real function panics on the model's input (model read back from " + solver + ")"
	case timedOut && ob.Kind == "variant":
		rr.Confirmed = true
		rr.Note = "the real function does not return within 20 s on the model's input"
	case timedOut:
		rr.Confirmed = true
		rr.Note = "the real function does not return within 20 s on the model's input"
	case predictable && agrees(text, resKinds, vals[nparamTerms:], fn):
		rr.Confirmed = true
		rr.Note = "the real function returns, on the model's input, exactly the results the solver predicted for it, and for those results the clause is false (model read back from " + solver + ")"
	case clauseFalse:
		rr.Confirmed = true
		rr.Note = "the clause evaluates to false on the results the real function returned"
	case !strings.Contains(text, "GOVC-REPLAY returned"):
		rr.Note = "the replay test did not run (see output)"
	default:
		rr.Note = "the real function returned normally on the model's input; the obligation talks about a state the replay cannot observe (or the model relies on an uninterpreted function)"
	}
	return rr
}

// exprToGo translates the executable fragment of the contract language.
func exprToGo(x Expr, names map[string]string) (string, bool) {
	switch t := x.(type) {
	case *EIdent:
		if t.Name == "nil" || t.Name == "true" || t.Name == "false" {
			return t.Name, true
		}
		if n, ok := names[t.Name]; ok {
			return n, true
		}
		return "", false
	case *ELit:
		switch t.Kind {
		case "int":
			if t.Neg {
				return fmt.Sprintf("(-%d)", t.I), true
			}
			return fmt.Sprintf("%d", t.I), true
		case "bool":
			return fmt.Sprintf("%v", t.B), true
		case "nil":
			return "nil", true
		}
		return "", false
	case *EUnary:
		a, ok := exprToGo(t.X, names)
		if !ok {
			return "", false
		}
		switch t.Op {
		case "!", "-":
			return "(" + t.Op + a + ")", true
		}
		return "", false
	case *EBinary:
		a, ok1 := exprToGo(t.X, names)
		b, ok2 := exprToGo(t.Y, names)
		if !ok1 || !ok2 {
			return "", false
		}
		switch t.Op {
		case "==>":
			return "(!(" + a + ") || (" + b + "))", true
		case "<==>":
			return "((" + a + ") == (" + b + "))", true
		case "&&", "||", "==", "!=", "<", "<=", ">", ">=", "+", "-", "*":
			return "(" + a + " " + t.Op + " " + b + ")", true
		}
		return "", false
	case *ECall:
		if t.Fn == "len" && len(t.Args) == 1 {
			a, ok := exprToGo(t.Args[0], names)
			if ok {
				return "len(" + a + ")", true
			}
		}
		return "", false
	case *EIndex:
		a, ok1 := exprToGo(t.X, names)
		b, ok2 := exprToGo(t.I, names)
		if ok1 && ok2 {
			return a + "[" + b + "]", true
		}
		return "", false
	}
	return "", false
}

// agrees: the observed results printed by the replay test equal the model's predicted results.
// Strings and byte slices are compared by length only when an integer or boolean result is also
// compared; a prediction made only of lengths is not taken as agreement.
func agrees(out string, kinds []string, pred []*sx, fn *ssa.Function) bool {
	if len(pred) != len(kinds) {
		return false
	}
	strong := false
	for i, k := range kinds {
		marker := fmt.Sprintf("GOVC-REPLAY r%d=", i)
		j := strings.Index(out, marker)
		if j < 0 {
			return false
		}
		rest := out[j+len(marker):]
		if e := strings.IndexByte(rest, '\n'); e >= 0 {
			rest = rest[:e]
		}
		rest = strings.TrimSpace(rest)
		switch k {
		case "int", "strlen", "byteslen":
			u, w, ok := bvValue(pred[i])
			if !ok {
				return false
			}
			want := int64(u)
			rt := fn.Signature.Results().At(i).Type()
			if k == "int" && !isSigned(rt) {
				if strconv.FormatUint(u, 10) != strings.TrimPrefix(rest, "+") && fmt.Sprint(int64(u)) != rest {
					return false
				}
			} else {
				if w < 64 && u&(1<<(uint(w)-1)) != 0 {
					want = int64(u) - (1 << uint(w))
				}
				if fmt.Sprint(want) != rest {
					return false
				}
			}
			if k == "int" {
				strong = true
			}
		case "bool", "error":
			if pred[i].String() != rest {
				return false
			}
			strong = true
		}
	}
	return strong
}
