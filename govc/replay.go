package main

type ReplayResult struct {
	Confirmed bool              `json:"confirmed"`
	Inputs    map[string]string `json:"inputs,omitempty"`
	Test      string            `json:"test,omitempty"`
	Output    string            `json:"output,omitempty"`
	Note      string            `json:"note,omitempty"`
}

func (e *Engine) replay(ob *Obligation, dir string) *ReplayResult {
	return &ReplayResult{Note: "replay not available for this obligation kind"}
}
