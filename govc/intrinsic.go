package main

// Built-in models of a few standard-library functions. Each is part of the trusted base and is
// listed in the evidence (see trustedIntrinsics).

import (
	"fmt"
	"go/token"
	"go/types"
	"sort"

	"golang.org/x/tools/go/ssa"
)

var trustedIntrinsics = map[string]string{
	"(encoding/binary.bigEndian).Uint16": "big-endian decode of 2 bytes; panics (bounds) when len < 2",
	"(encoding/binary.bigEndian).Uint32": "big-endian decode of 4 bytes; panics (bounds) when len < 4",
	"(encoding/binary.bigEndian).Uint64": "big-endian decode of 8 bytes; panics (bounds) when len < 8",
	"math.Float64frombits":               "IEEE-754 reinterpretation (SMT to_fp on the bit pattern)",
	"math/bits.OnesCount":                "population count of a 64-bit word",
	"bytes.NewBuffer":                    "returns a reader positioned at the start of the given bytes",
	"encoding/binary.Read":               "fills the fixed-size struct field by field, big-endian, from the reader's bytes; error iff fewer bytes than the struct size; layout derived from go/types",
	"unicode/utf8.DecodeRuneInString":    "first rune and its width per the specification functions utf8_r / utf8_w (smt block utf8: RFC 3629 decoding as implemented by unicode/utf8; invalid or short sequences give U+FFFD width 1, the empty string width 0); range over a string uses the same functions",
	"sort.Search":                        "returns r in [0,n] with f(r-1)==false (r>0) and f(r)==true (r<n), for any f (binary-search invariant)",
}

func (fx *FX) intrinsic(fr *frame, st *State, name string, callee *ssa.Function, args []Val, pos token.Pos) ([]Val, bool) {
	w := fx.e.W
	switch name {
	case "(encoding/binary.bigEndian).Uint16", "(encoding/binary.bigEndian).Uint32", "(encoding/binary.bigEndian).Uint64":
		n := map[string]int{"6": 2, "2": 4, "4": 8}[name[len(name)-1:]]
		b := fx.termOf(fr, st, args[1])
		fx.safe(fr, st, fmt.Sprintf("binary.BigEndian: %d bytes available", n), Ge(sLen(b), withSign(BVLit(uint64(n), 64), true)), pos)
		mem := fx.comp(st, "M:bv8", SArr(SInt, SBytes))
		arr := Select(mem, sReg(b))
		s := ""
		for i := 0; i < n; i++ {
			s += " " + Select(arr, bvbin("bvadd", sOff(b), BVLit(uint64(i), 64))).S
		}
		r := T("(concat"+s+")", SBV(8*n))
		return []Val{{T: fx.define("be", r), Typ: callee.Signature.Results().At(0).Type()}}, true
	case "math.Float64frombits":
		return []Val{{T: T(fmt.Sprintf("((_ to_fp 11 53) %s)", args[0].T.S), SF64), Typ: types.Typ[types.Float64]}}, true
	case "math/bits.OnesCount":
		x := args[0].T
		sum := "#x0000000000000000"
		for i := 0; i < 64; i++ {
			sum = fmt.Sprintf("(bvadd %s ((_ zero_extend 63) ((_ extract %d %d) %s)))", sum, i, i, x.S)
		}
		return []Val{{T: withSign(fx.define("popcnt", T(sum, SBV64)), true), Typ: types.Typ[types.Int]}}, true
	case "bytes.NewBuffer":
		r := fx.newRef(st, "buffer")
		b := fx.termOf(fr, st, args[0])
		fx.bufSlices[r.S] = b
		return []Val{{T: r, Typ: callee.Signature.Results().At(0).Type()}}, true
	case "encoding/binary.Read":
		return fx.binaryRead(fr, st, callee, args, pos), true
	case "sort.Search":
		return fx.sortSearch(fr, st, callee, args, pos), true
	case "unicode/utf8.DecodeRuneInString":
		if !fx.hasUTF8() {
			return nil, false
		}
		s := args[0].T
		arr, off := app("st_arr", SBytes, s), app("st_off", SBV64, s)
		r := withSign(fx.define("dec_r", app("utf8_r", SBV(32), arr, off, strLen(s))), true)
		wd := withSign(fx.define("dec_w", app("utf8_w", SBV64, arr, off, strLen(s))), true)
		return []Val{{T: r, Typ: types.Typ[types.Rune]}, {T: wd, Typ: types.Typ[types.Int]}}, true
	}
	_ = w
	return nil, false
}

// binaryRead models encoding/binary.Read(bytes.NewBuffer(b), binary.BigEndian, &fixedStruct).
func (fx *FX) binaryRead(fr *frame, st *State, callee *ssa.Function, args []Val, pos token.Pos) []Val {
	w := fx.e.W
	// reader: interface holding *bytes.Buffer made by bytes.NewBuffer in this function
	var src Term
	found := false
	for refS, sl := range fx.bufSlices {
		for _, k := range w.ifaceOrd {
			c := w.ifaceCons[k]
			if args[0].T.S == app(c.con, SIface, T(refS, SRef)).S {
				src, found = sl, true
			}
		}
	}
	if !found {
		fx.unsupportedf("binary.Read from an unknown reader")
	}
	// destination: interface holding a pointer to a struct
	var dst Term
	var stt *types.Struct
	var sname string
	for _, k := range w.ifaceOrd {
		c := w.ifaceCons[k]
		if p, ok := c.typ.Underlying().(*types.Pointer); ok {
			if s, ok2 := p.Elem().Underlying().(*types.Struct); ok2 {
				pre := "(" + c.con + " "
				if len(args[2].T.S) > len(pre) && args[2].T.S[:len(pre)] == pre {
					dst = T(args[2].T.S[len(pre):len(args[2].T.S)-1], SRef)
					stt = s
					sname = w.SortOf(p.Elem())
				}
			}
		}
	}
	if stt == nil {
		fx.unsupportedf("binary.Read into a non-struct destination")
	}
	mem := fx.comp(st, "M:bv8", SArr(SInt, SBytes))
	arr := Select(mem, sReg(src))
	byteAt := func(off int) Term {
		return Select(arr, bvbin("bvadd", sOff(src), BVLit(uint64(off), 64)))
	}
	// total size
	size := 0
	type fld struct {
		idx, off, n int
		arrLen      int
	}
	var flds []fld
	for k := 0; k < stt.NumFields(); k++ {
		ft := stt.Field(k).Type()
		switch u := ft.Underlying().(type) {
		case *types.Basic:
			n := intWidth(u) / 8
			if n == 0 {
				fx.unsupportedf("binary.Read: field type %s", ft)
			}
			flds = append(flds, fld{idx: k, off: size, n: n})
			size += n
		case *types.Array:
			if b, ok := u.Elem().Underlying().(*types.Basic); !ok || intWidth(b) != 8 {
				fx.unsupportedf("binary.Read: array field type %s", ft)
			}
			flds = append(flds, fld{idx: k, off: size, n: 1, arrLen: int(u.Len())})
			size += int(u.Len())
		default:
			fx.unsupportedf("binary.Read: field type %s", ft)
		}
	}
	ok := fx.define("binread_ok", Ge(sLen(src), withSign(BVLit(uint64(size), 64), true)))
	for _, f := range flds {
		if stt.Field(f.idx).Name() == "_" {
			continue // blank fields are skipped by binary.Read
		}
		old := fx.loadHeapField(st, dst, sname, f.idx)
		var nv Term
		if f.arrLen > 0 {
			nv = old
			for j := 0; j < f.arrLen; j++ {
				nv = Store(nv, BVLit(uint64(j), 64), byteAt(f.off+j))
			}
		} else if f.n == 1 {
			nv = byteAt(f.off)
		} else {
			s := ""
			for j := 0; j < f.n; j++ {
				s += " " + byteAt(f.off+j).S
			}
			nv = T("(concat"+s+")", SBV(8*f.n))
		}
		fx.storeHeapField(fr, st, dst, sname, f.idx, nil, fx.define("binread_f", Ite(ok, nv, old)), false)
	}
	errv := fx.freshConst("binread_err", SIface)
	fx.assume(st.reach, IdEq(IfaceIsNil(errv), ok))
	return []Val{{T: errv, Typ: callee.Signature.Results().At(0).Type()}}
}

// sortSearch: sort.Search(n, f) with a closure created in this function.
func (fx *FX) sortSearch(fr *frame, st *State, callee *ssa.Function, args []Val, pos token.Pos) []Val {
	n := args[0].T
	n.Signed = true
	r := withSign(fx.freshConst("search_r", SBV64), true)
	zero := withSign(BVLit(0, 64), true)
	one := withSign(BVLit(1, 64), true)
	// n < 0: the loop does not run and 0 is returned
	fx.assume(st.reach, And(Le(zero, r), Or(Le(r, n), And(Lt(n, zero), Eq(r, zero)))))
	f := args[1]
	if f.Clo == nil || f.Clo.Fn == nil {
		fx.havocAll(st)
		return []Val{{T: r, Typ: types.Typ[types.Int]}}
	}
	// evaluate the predicate at r and r-1 on scratch copies of the state; its writes are havocked
	log := &writeLog{cells: map[*ssa.Alloc]bool{}, comps: map[string]bool{}}
	eval := func(arg Term, guard Term) (Term, *State) {
		s2 := st.clone()
		s2.reach = fx.define("r_search", And(st.reach, guard))
		activeLogs = append(activeLogs, log)
		rs := fx.callFunction(fr, s2, f.Clo.Fn, []Val{{T: arg, Typ: types.Typ[types.Int]}}, f.Clo.Bindings, pos)
		activeLogs = activeLogs[:len(activeLogs)-1]
		return rs[0].T, s2
	}
	atR, s1 := eval(r, Lt(r, n))
	prev := bvbin("bvsub", r, one)
	prev.Signed = true
	atPrev, s2 := eval(prev, Gt(r, zero))
	fx.assume(s1.reach, atR)
	fx.assume(s2.reach, Not(atPrev))
	// error latches: if the predicate's verified contract has an ensures labelled [latch], a captured
	// error cell that is non-nil after a probe is non-nil after the search (probes r and r-1 did run)
	var latchCells []Term
	if cc := fx.e.contractFor(f.Clo.Fn); cc != nil {
		hasLatch := false
		for _, cl := range cc.Ensures {
			if cl.Name == "latch" {
				hasLatch = true
			}
		}
		if hasLatch {
			for k, fv := range f.Clo.Fn.FreeVars {
				if k < len(f.Clo.Bindings) && !freeVarReadOnly(fv) && f.Clo.Bindings[k].Addr == nil {
					if pt, ok := fv.Type().Underlying().(*types.Pointer); ok && fx.e.W.SortOf(pt.Elem()) == SIface {
						latchCells = append(latchCells, f.Clo.Bindings[k].T)
					}
				}
			}
		}
	}
	probeStates := []*State{s1, s2}
	// effects of the predicate (it may run any number of times)
	{
		var ks []string
		for k := range log.comps {
			if k == "$alloc" {
				continue
			}
			ks = append(ks, k)
		}
		sort.Strings(ks)
		if log.all {
			ks = append([]string{"*"}, ks...)
			logComp("*")
		}
		fx.havoc(st, ks)
		for _, k := range ks {
			logComp(k)
		}
	}
	for a := range log.cells {
		if old, ok := st.cells[a]; ok {
			st.cells[a] = fx.freshConst("cell_"+a.Name(), old.Sort)
			logCell(a)
		}
	}
	for _, cell := range latchCells {
		final := Select(fx.comp(st, "B:Iface", SArr(SInt, SIface)), cell)
		for _, ps := range probeStates {
			after := Select(fx.comp(ps, "B:Iface", SArr(SInt, SIface)), cell)
			fx.assume(ps.reach, Implies(Not(IfaceIsNil(after)), Not(IfaceIsNil(final))))
		}
	}
	// the calls must be safe wherever f is invoked: indices 0..n-1
	fx.searchPred = append(fx.searchPred, searchFact{r: r, n: n})
	return []Val{{T: r, Typ: types.Typ[types.Int]}}
}

type searchFact struct{ r, n Term }
