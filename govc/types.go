package main

// Mapping of Go types to SMT sorts, and the datatype preamble.

import (
	"fmt"
	"go/types"
	"regexp"
	"sort"
	"strings"
)

// World holds everything that is global to a verification run: the loaded program,
// the sorts declared so far, the interface-constructor table, globals.
type World struct {
	structs    map[string]*structInfo // datatype name -> info
	structOrd  []string
	ifaceCons  map[string]*ifaceCon // Go type string -> constructor
	ifaceOrd   []string
	strLits    map[string]string // literal -> const name
	strLitOrd  []string
	qualifier  types.Qualifier
	extraDecls []string // uninterpreted functions declared on demand (extern models)
	extraSeen  map[string]bool
	extraKeys  []string
}

type structInfo struct {
	name   string
	fields []string // sorts
	fnames []string
	typ    *types.Struct
}

type ifaceCon struct {
	typ     types.Type
	con     string // constructor name
	sel     string // selector name
	payload string // payload sort ("" for none)
	boxed   bool   // payload is an Int handle to a boxed value of sort boxSort
	boxSort string
}

func newWorld() *World {
	w := &World{
		structs:   map[string]*structInfo{},
		ifaceCons: map[string]*ifaceCon{},
		strLits:   map[string]string{},
		extraSeen: map[string]bool{},
	}
	w.qualifier = func(p *types.Package) string {
		path := p.Path()
		path = strings.TrimPrefix(path, "github.com/alicebob/sqlittle")
		path = strings.TrimPrefix(path, "/")
		if path == "" {
			return "sqlittle"
		}
		return path
	}
	return w
}

var byteRe = regexp.MustCompile(`\bbyte\b`)
var runeRe = regexp.MustCompile(`\brune\b`)

func (w *World) typeString(t types.Type) string {
	s := types.TypeString(t, w.qualifier)
	s = byteRe.ReplaceAllString(s, "uint8")
	s = runeRe.ReplaceAllString(s, "int32")
	return s
}

func isSigned(t types.Type) bool {
	if b, ok := t.Underlying().(*types.Basic); ok {
		return b.Info()&types.IsInteger != 0 && b.Info()&types.IsUnsigned == 0
	}
	return false
}

func intWidth(b *types.Basic) int {
	switch b.Kind() {
	case types.Int8, types.Uint8:
		return 8
	case types.Int16, types.Uint16:
		return 16
	case types.Int32, types.Uint32:
		return 32
	case types.Int, types.Uint, types.Int64, types.Uint64, types.Uintptr, types.UntypedInt, types.UntypedRune:
		return 64
	}
	return 0
}

// SortOf maps a Go type to its SMT sort.
func (w *World) SortOf(t types.Type) string {
	switch u := t.Underlying().(type) {
	case *types.Basic:
		switch {
		case u.Info()&types.IsBoolean != 0:
			return SBool
		case u.Info()&types.IsInteger != 0:
			return SBV(intWidth(u))
		case u.Kind() == types.Float64 || u.Kind() == types.UntypedFloat:
			return SF64
		case u.Kind() == types.Float32:
			return SF32
		case u.Info()&types.IsString != 0:
			return SStr
		case u.Kind() == types.UnsafePointer:
			return SRef
		case u.Kind() == types.UntypedNil:
			return SRef
		}
	case *types.Pointer, *types.Signature, *types.Map, *types.Chan:
		return SRef
	case *types.Slice:
		return SSlice
	case *types.Array:
		return SArr(SBV64, w.SortOf(u.Elem()))
	case *types.Interface:
		return SIface
	case *types.Struct:
		return w.structSort(t, u)
	case *types.Tuple:
		return "TUPLE"
	}
	panic(fmt.Sprintf("SortOf: unsupported type %s", t))
}

func (w *World) structSort(t types.Type, u *types.Struct) string {
	var name string
	if n, ok := t.(*types.Named); ok {
		name = "S_" + sanitize(w.typeString(n))
	} else if a, ok := t.(*types.Alias); ok {
		return w.structSort(types.Unalias(a), u)
	} else {
		name = "S_anon_" + sanitize(w.typeString(u))
		if len(name) > 60 {
			name = fmt.Sprintf("S_anon%d_%d", u.NumFields(), hashString(w.typeString(u)))
		}
	}
	if _, ok := w.structs[name]; ok {
		return name
	}
	si := &structInfo{name: name, typ: u}
	w.structs[name] = si // pre-register (recursion through pointers only)
	for i := 0; i < u.NumFields(); i++ {
		f := u.Field(i)
		si.fields = append(si.fields, w.SortOf(f.Type()))
		fn := f.Name()
		if fn == "_" {
			fn = fmt.Sprintf("blank%d", i)
		}
		si.fnames = append(si.fnames, fn)
	}
	w.structOrd = append(w.structOrd, name)
	return name
}

func hashString(s string) uint32 {
	var h uint32 = 2166136261
	for i := 0; i < len(s); i++ {
		h ^= uint32(s[i])
		h *= 16777619
	}
	return h
}

func (w *World) structSel(sortName string, i int) string {
	si := w.structs[sortName]
	return fmt.Sprintf("%s_%d_%s", si.name, i, sanitize(si.fnames[i]))
}

func (w *World) StructGet(v Term, i int, ft types.Type) Term {
	si := w.structs[v.Sort]
	if si == nil {
		panic("StructGet on non-struct sort " + v.Sort)
	}
	t := app(w.structSel(v.Sort, i), si.fields[i], v)
	if ft != nil {
		t.Signed = isSigned(ft)
	}
	return t
}

func (w *World) StructMake(sortName string, fields []Term) Term {
	if len(fields) == 0 {
		return T("mk_"+sortName, sortName)
	}
	return app("mk_"+sortName, sortName, fields...)
}

func (w *World) StructSet(v Term, i int, nv Term) Term {
	si := w.structs[v.Sort]
	fs := make([]Term, len(si.fields))
	for k := range si.fields {
		if k == i {
			fs[k] = nv
		} else {
			fs[k] = app(w.structSel(v.Sort, k), si.fields[k], v)
		}
	}
	return w.StructMake(v.Sort, fs)
}

// Zero value of a Go type.
func (w *World) Zero(t types.Type) Term {
	sort := w.SortOf(t)
	z := w.zeroSort(sort, t)
	z.Signed = isSigned(t)
	return z
}

func (w *World) zeroSort(sort string, t types.Type) Term {
	switch sort {
	case SBool:
		return False
	case SF64:
		return T("(_ +zero 11 53)", SF64)
	case SF32:
		return T("(_ +zero 8 24)", SF32)
	case SRef:
		return T("0", SRef)
	case SSlice:
		return T("nil_slice", SSlice)
	case SStr:
		return T("empty_str", SStr)
	case SIface:
		return T("if_nil", SIface)
	}
	if n := bvWidth(sort); n > 0 {
		return BVLit(0, n)
	}
	if strings.HasPrefix(sort, "(Array ") {
		_, e := splitArray(sort)
		var et types.Type
		if t != nil {
			if a, ok := t.Underlying().(*types.Array); ok {
				et = a.Elem()
			}
		}
		z := w.zeroSort(e, et)
		return T(fmt.Sprintf("((as const %s) %s)", sort, z.S), sort)
	}
	if si, ok := w.structs[sort]; ok {
		fs := make([]Term, len(si.fields))
		for i, fsrt := range si.fields {
			fs[i] = w.zeroSort(fsrt, si.typ.Field(i).Type())
		}
		return w.StructMake(sort, fs)
	}
	panic("zeroSort: " + sort)
}

// ---------------------------------------------------------------------------------------
// interface values

// IfaceCon returns (creating on demand) the constructor used for dynamic type t.
func (w *World) IfaceCon(t types.Type) *ifaceCon {
	key := w.typeString(t)
	if c, ok := w.ifaceCons[key]; ok {
		return c
	}
	id := sanitize(key)
	c := &ifaceCon{typ: t, con: "if_" + id, sel: "ifv_" + id}
	sort := w.SortOf(t)
	switch {
	case sort == SIface:
		panic("interface as dynamic type: " + key)
	case sort == SBool || sort == SF64 || sort == SF32 || sort == SRef || sort == SSlice || sort == SStr || bvWidth(sort) > 0:
		c.payload = sort
	default:
		c.payload = SInt
		c.boxed = true
		c.boxSort = sort
	}
	w.ifaceCons[key] = c
	w.ifaceOrd = append(w.ifaceOrd, key)
	return c
}

func (w *World) MakeIface(v Term, t types.Type) Term {
	c := w.IfaceCon(t)
	if c.boxed {
		return app(c.con, SIface, app("box_"+sortID(c.boxSort), SInt, v))
	}
	return app(c.con, SIface, v)
}

func (w *World) IfaceIs(v Term, t types.Type) Term {
	c := w.IfaceCon(t)
	return app("(_ is "+c.con+")", SBool, v)
}

func (w *World) IfaceGet(v Term, t types.Type) Term {
	c := w.IfaceCon(t)
	var r Term
	if c.boxed {
		r = app("unbox_"+sortID(c.boxSort), c.boxSort, app(c.sel, SInt, v))
	} else {
		r = app(c.sel, c.payload, v)
	}
	r.Signed = isSigned(t)
	return r
}

func IfaceIsNil(v Term) Term { return app("(_ is if_nil)", SBool, v) }

// IfaceImplements: dynamic type of v implements interface it.
func (w *World) IfaceImplements(v Term, it *types.Interface) Term {
	var alts []Term
	keys := append([]string(nil), w.ifaceOrd...)
	for _, k := range keys {
		c := w.ifaceCons[k]
		if types.Implements(c.typ, it) {
			alts = append(alts, app("(_ is "+c.con+")", SBool, v))
		}
	}
	alts = append(alts, And(app("(_ is if_other)", SBool, v),
		app("dyn_implements", SBool, app("ifo_typ", SInt, v), T(fmt.Sprintf("%d", hashString(it.String())%1000000), SInt))))
	return Or(alts...)
}

// ---------------------------------------------------------------------------------------
// string literals

func (w *World) StrLit(s string) Term {
	if s == "" {
		return T("empty_str", SStr)
	}
	if n, ok := w.strLits[s]; ok {
		return T(n, SStr)
	}
	n := fmt.Sprintf("strlit_%d", len(w.strLitOrd))
	w.strLits[s] = n
	w.strLitOrd = append(w.strLitOrd, s)
	return T(n, SStr)
}

func (w *World) Declare(key, decl string) {
	if w.extraSeen[key] {
		return
	}
	w.extraSeen[key] = true
	w.extraDecls = append(w.extraDecls, decl)
	w.extraKeys = append(w.extraKeys, key)
}

// ---------------------------------------------------------------------------------------
// Preamble emission. memSorts / boxSorts are the element sorts for which heap maps exist.

func (w *World) Preamble(body string) string {
	// extra declarations that the body uses may themselves refer to literals
	for changed := true; changed; {
		changed = false
		for i, d := range w.extraDecls {
			k := w.extraKeys[i]
			base := strings.TrimSuffix(strings.TrimSuffix(k, "="), "!nil")
			if strings.Contains(body, base) && !strings.Contains(body, d) {
				body += "\n" + d
				changed = true
			}
		}
	}
	used := func(name string) bool { return strings.Contains(body, name) }
	var b strings.Builder
	b.WriteString("(declare-datatypes ((Slice 0)) (((mk_slice (s_reg Int) (s_off (_ BitVec 64)) (s_len (_ BitVec 64)) (s_cap (_ BitVec 64))))))\n")
	b.WriteString("(declare-datatypes ((Str 0)) (((mk_str (st_arr (Array (_ BitVec 64) (_ BitVec 8))) (st_off (_ BitVec 64)) (st_len (_ BitVec 64))))))\n")
	b.WriteString("(define-fun nil_slice () Slice (mk_slice 0 #x0000000000000000 #x0000000000000000 #x0000000000000000))\n")
	b.WriteString("(define-fun empty_str () Str (mk_str ((as const (Array (_ BitVec 64) (_ BitVec 8))) #x00) #x0000000000000000 #x0000000000000000))\n")
	// Iface
	b.WriteString("(declare-datatypes ((Iface 0)) (((if_nil) (if_other (ifo_typ Int) (ifo_val Int))")
	for _, k := range w.ifaceOrd {
		c := w.ifaceCons[k]
		fmt.Fprintf(&b, " (%s (%s %s))", c.con, c.sel, c.payload)
	}
	b.WriteString(")))\n")
	b.WriteString("(declare-fun dyn_implements (Int Int) Bool)\n")
	// struct datatypes, in dependency order (fields first). structOrd is creation order with
	// nested structs registered before the outer finishes, so sort by dependency.
	emitted := map[string]bool{}
	var emit func(name string)
	emit = func(name string) {
		if emitted[name] {
			return
		}
		emitted[name] = true
		si := w.structs[name]
		for _, f := range si.fields {
			for dep := range w.structs {
				if strings.Contains(f, dep) && (f == dep || strings.Contains(f, " "+dep+")") || strings.Contains(f, " "+dep+" ")) {
					emit(dep)
				}
			}
		}
		if len(si.fields) == 0 {
			fmt.Fprintf(&b, "(declare-datatypes ((%s 0)) (((mk_%s))))\n", name, name)
			return
		}
		fmt.Fprintf(&b, "(declare-datatypes ((%s 0)) (((mk_%s", name, name)
		for i, f := range si.fields {
			fmt.Fprintf(&b, " (%s %s)", w.structSel(name, i), f)
		}
		b.WriteString("))))\n")
	}
	names := append([]string(nil), w.structOrd...)
	sort.Strings(names)
	for _, n := range names {
		emit(n)
	}
	// boxes for boxed iface payloads
	seenBox := map[string]bool{}
	for _, k := range w.ifaceOrd {
		c := w.ifaceCons[k]
		if c.boxed && !seenBox[c.boxSort] && used("box_"+sortID(c.boxSort)) {
			seenBox[c.boxSort] = true
			id := sortID(c.boxSort)
			fmt.Fprintf(&b, "(declare-fun box_%s (%s) Int)\n(declare-fun unbox_%s (Int) %s)\n", id, c.boxSort, id, c.boxSort)
			fmt.Fprintf(&b, "(assert (forall ((x %s)) (! (= (unbox_%s (box_%s x)) x) :pattern ((box_%s x)))))\n", c.boxSort, id, id, id)
		}
	}
	// string literals
	for i, s := range w.strLitOrd {
		n := fmt.Sprintf("strlit_%d", i)
		if !used(n + " ") && !used(n + ")") {
			continue
		}
		fmt.Fprintf(&b, "(declare-const %s Str)\n", n)
		fmt.Fprintf(&b, "(assert (= (st_len %s) %s))\n(assert (= (st_off %s) #x0000000000000000))\n", n, BVLit(uint64(len(s)), 64).S, n)
		for j := 0; j < len(s); j++ {
			fmt.Fprintf(&b, "(assert (= (select (st_arr %s) %s) %s))\n", n, BVLit(uint64(j), 64).S, BVLit(uint64(s[j]), 8).S)
		}
	}
	// string equality
	if used("str_eq") {
		// opaque, revealed by pattern: atoms str_eq(a, b) stay visible to congruence reasoning and the
		// byte-wise meaning is available wherever such an atom occurs
		b.WriteString("(declare-fun str_eq (Str Str) Bool)\n")
		b.WriteString("(assert (forall ((a Str) (b Str)) (! (= (str_eq a b) (and (= (st_len a) (st_len b)) (forall ((i (_ BitVec 64))) (=> (bvult i (st_len a)) (= (select (st_arr a) (bvadd (st_off a) i)) (select (st_arr b) (bvadd (st_off b) i))))))) :pattern ((str_eq a b)))))\n")
		b.WriteString("(assert (forall ((a Str)) (! (str_eq a a) :pattern ((str_eq a a)))))\n")
		b.WriteString("(assert (forall ((a Str) (b Str)) (! (= (str_eq a b) (str_eq b a)) :pattern ((str_eq a b)))))\n")
		b.WriteString("(assert (forall ((a Str) (b Str) (c Str)) (! (=> (and (str_eq a b) (str_eq b c)) (str_eq a c)) :pattern ((str_eq a b) (str_eq b c)))))\n")
	}
	for i, d := range w.extraDecls {
		if strings.HasPrefix(w.extraKeys[i], "est_") {
			continue // emitted after the spec blocks (see EstablishedFacts)
		}
		if used(w.extraKeys[i]) || strings.HasSuffix(w.extraKeys[i], "=") && used(strings.TrimSuffix(w.extraKeys[i], "=")) || strings.HasSuffix(w.extraKeys[i], "!nil") && used(strings.TrimSuffix(w.extraKeys[i], "!nil")) {
			b.WriteString(d)
			b.WriteString("\n")
		}
	}
	return b.String()
}

// EstablishedFacts: ghost predicates established by verified contracts, for function values that
// occur in the script body.
func (w *World) EstablishedFacts(body string) string {
	var b strings.Builder
	for i, d := range w.extraDecls {
		k := w.extraKeys[i]
		if !strings.HasPrefix(k, "est_") {
			continue
		}
		parts := strings.Split(k, "_")
		id := parts[len(parts)-1]
		if strings.Contains(body, " "+id+")") || strings.Contains(body, " "+id+" ") {
			b.WriteString(d)
			b.WriteString("\n")
		}
	}
	return b.String()
}
