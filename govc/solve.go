package main

import (
	"bytes"
	"context"
	"fmt"
	"os"
	"os/exec"
	"path/filepath"
	"strings"
	"sync"
	"time"
)

type solverSpec struct {
	name string
	cmd  func(file string, timeout time.Duration) []string
}

var solvers = []solverSpec{
	{"z3-new 5.1.0", func(f string, t time.Duration) []string {
		return []string{"z3-new", fmt.Sprintf("-T:%d", int(t.Seconds())+1), f}
	}},
	{"z3-new 5.1.0 (e-matching only)", func(f string, t time.Duration) []string {
		return []string{"z3-new", "smt.mbqi=false", "smt.auto_config=false", "smt.solve_eqs=false", fmt.Sprintf("-T:%d", int(t.Seconds())+1), f}
	}},
	{"z3 4.8.12", func(f string, t time.Duration) []string {
		return []string{"/usr/bin/z3", fmt.Sprintf("-T:%d", int(t.Seconds())+1), f}
	}},
	{"cvc5 1.0", func(f string, t time.Duration) []string {
		return []string{"cvc5", fmt.Sprintf("--tlimit=%d", t.Milliseconds()), "--incremental", f}
	}},
}

type solveResult struct {
	verdict string // sat unsat unknown
	out     string
	solver  string
	secs    float64
}

// at most this many solver processes at once (the sandbox has 16 cores)
var solverSlots = make(chan struct{}, 16)

func runSolver(ctx context.Context, s solverSpec, file string, timeout time.Duration) solveResult {
	select {
	case solverSlots <- struct{}{}:
		defer func() { <-solverSlots }()
	case <-ctx.Done():
		return solveResult{verdict: "unknown", solver: s.name}
	}
	args := s.cmd(file, timeout)
	c, cancel := context.WithTimeout(ctx, timeout+2*time.Second)
	defer cancel()
	cmd := exec.CommandContext(c, args[0], args[1:]...)
	var out bytes.Buffer
	cmd.Stdout = &out
	cmd.Stderr = &out
	t0 := time.Now()
	cmd.Run()
	secs := time.Since(t0).Seconds()
	text := out.String()
	v := "unknown"
	for _, line := range strings.Split(text, "\n") {
		line = strings.TrimSpace(line)
		if line == "" || strings.HasPrefix(line, "WARNING") {
			continue
		}
		if line == "sat" || line == "unsat" {
			v = line
		}
		break
	}
	// keep warnings out of the stored output
	if strings.Contains(text, "WARNING") {
		var keep []string
		for _, line := range strings.Split(text, "\n") {
			if !strings.HasPrefix(line, "WARNING") {
				keep = append(keep, line)
			}
		}
		text = strings.Join(keep, "\n")
	}
	return solveResult{verdict: v, out: text, solver: s.name, secs: secs}
}

// solveOne decides one obligation: quick attempt with z3-new, then a race of all solvers.
func solveOne(ob *Obligation, dir string, quick, full time.Duration, twoUnsat bool) {
	file := filepath.Join(dir, sanitize(ob.Name)+fmt.Sprintf("_%d.smt2", hashString(ob.Name)))
	os.WriteFile(file, []byte(ob.Script+"(get-model)\n"), 0o644)
	defer func() {
		if ob.Status == "discharged" && os.Getenv("GOVC_KEEP") == "" {
			os.Remove(file)
		}
	}()
	t0 := time.Now()
	finish := func(r solveResult) {
		ob.Solver = r.solver
		ob.Time = time.Since(t0).Seconds()
		ob.Output = r.out
		if len(ob.Output) > 6000 {
			ob.Output = ob.Output[:6000]
		}
		switch {
		case r.verdict == "unknown":
			ob.Status = "undecided"
		case r.verdict == ob.Expect:
			ob.Status = "discharged"
		default:
			ob.Status = "refuted"
			if r.verdict == "sat" {
				ob.Model = r.out
			}
		}
	}
	{
		qctx, qcancel := context.WithCancel(context.Background())
		quickSet := []solverSpec{solvers[0], solvers[1], solvers[3]}
		qch := make(chan solveResult, len(quickSet))
		for _, s := range quickSet {
			s := s
			go func() { qch <- runSolver(qctx, s, file, quick) }()
		}
		for i := 0; i < len(quickSet); i++ {
			r := <-qch
			// "sat" from the e-matching-only configuration is not trusted (incomplete); only unsat counts
			if r.verdict == "unsat" || (r.verdict == "sat" && r.solver != solvers[1].name) {
				qcancel()
				finish(r)
				return
			}
		}
		qcancel()
	}
	ctx, cancel := context.WithCancel(context.Background())
	defer cancel()
	ch := make(chan solveResult, len(solvers))
	for _, s := range solvers {
		s := s
		go func() { ch <- runSolver(ctx, s, file, full) }()
	}
	var last solveResult
	for range solvers {
		r := <-ch
		if r.verdict == "unknown" || last.solver == "" {
			last = r
		}
		if r.verdict != "unknown" {
			finish(r)
			return
		}
	}
	last.verdict = "unknown"
	finish(last)
}

func solveAll(obs []*Obligation, dir string, quick, full time.Duration, workers int) {
	os.MkdirAll(dir, 0o755)
	var wg sync.WaitGroup
	ch := make(chan *Obligation)
	for i := 0; i < workers; i++ {
		wg.Add(1)
		go func() {
			defer wg.Done()
			for ob := range ch {
				solveOne(ob, dir, quick, full, false)
			}
		}()
	}
	for _, ob := range obs {
		ch <- ob
	}
	close(ch)
	wg.Wait()
}
