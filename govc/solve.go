package main

import (
	"bytes"
	"context"
	"fmt"
	"os"
	"os/exec"
	"path/filepath"
	"strings"
	"sync"
	"time"
)

type solverSpec struct {
	name string
	cmd  func(file string, timeout time.Duration) []string
}

var solvers = []solverSpec{
	{"z3-new 5.1.0", func(f string, t time.Duration) []string {
		return []string{"z3-new", fmt.Sprintf("-T:%d", int(t.Seconds())+1), f}
	}},
	{"z3-new 5.1.0 (e-matching only)", func(f string, t time.Duration) []string {
		return []string{"z3-new", "smt.mbqi=false", "smt.auto_config=false", "smt.solve_eqs=false", fmt.Sprintf("-T:%d", int(t.Seconds())+1), f}
	}},
	{"z3 4.8.12", func(f string, t time.Duration) []string {
		return []string{"/usr/bin/z3", fmt.Sprintf("-T:%d", int(t.Seconds())+1), f}
	}},
	{"cvc5 1.0", func(f string, t time.Duration) []string {
		return []string{"cvc5", fmt.Sprintf("--tlimit=%d", t.Milliseconds()), "--incremental", f}
	}},
}

type solveResult struct {
	verdict string // sat unsat unknown
	out     string
	solver  string
	secs    float64
}

// at most this many solver processes at once (the sandbox has 16 cores)
var solverSlots = make(chan struct{}, 16)

func runSolver(ctx context.Context, s solverSpec, file string, timeout time.Duration) solveResult {
	select {
	case solverSlots <- struct{}{}:
		defer func() { <-solverSlots }()
	case <-ctx.Done():
		return solveResult{verdict: "unknown", solver: s.name}
	}
	args := s.cmd(file, timeout)
	c, cancel := context.WithTimeout(ctx, timeout+2*time.Second)
	defer cancel()
	cmd := exec.CommandContext(c, args[0], args[1:]...)
	var out bytes.Buffer
	cmd.Stdout = &out
	cmd.Stderr = &out
	t0 := time.Now()
	cmd.Run()
	secs := time.Since(t0).Seconds()
	text := out.String()
	v := "unknown"
	for _, line := range strings.Split(text, "\n") {
		line = strings.TrimSpace(line)
		if line == "" || strings.HasPrefix(line, "WARNING") {
			continue
		}
		if line == "sat" || line == "unsat" {
			v = line
		}
		break
	}
	// keep warnings out of the stored output
	if strings.Contains(text, "WARNING") {
		var keep []string
		for _, line := range strings.Split(text, "\n") {
			if !strings.HasPrefix(line, "WARNING") {
				keep = append(keep, line)
			}
		}
		text = strings.Join(keep, "\n")
	}
	return solveResult{verdict: v, out: text, solver: s.name, secs: secs}
}

// solveOne decides one obligation: quick attempt with z3-new, then a race of all solvers.
// crossCheck (thorough tier): every discharged obligation is given to the solvers of the other
// families as well. A second `unsat` is recorded; a `sat` from a complete configuration is a
// disagreement and the obligation is reported as refuted; no answer leaves the first verdict.
var crossCheck = false

func secondOpinion(ob *Obligation, file string, timeout time.Duration) {
	if ob.Status != "discharged" || ob.Expect != "unsat" || ob.Solver == "" || strings.HasPrefix(ob.Solver, "frame") || strings.HasPrefix(ob.Solver, "grammar") {
		return
	}
	var others []solverSpec
	switch {
	case strings.HasPrefix(ob.Solver, "cvc5"):
		others = []solverSpec{solvers[0], solvers[1], solvers[2]}
	case strings.HasPrefix(ob.Solver, "z3 4.8"):
		others = []solverSpec{solvers[3], solvers[0], solvers[1]}
	default: // z3-new in either configuration, or a case split
		others = []solverSpec{solvers[3], solvers[2]}
	}
	os.WriteFile(file, []byte(ob.Script), 0o644)
	defer os.Remove(file)
	ctx, cancel := context.WithCancel(context.Background())
	defer cancel()
	ch := make(chan solveResult, len(others))
	for _, s := range others {
		s := s
		go func() { ch <- runSolver(ctx, s, file, timeout) }()
	}
	for range others {
		r := <-ch
		if r.verdict == "unsat" {
			ob.Second = r.solver
			return
		}
		if r.verdict == "sat" && r.solver != solvers[1].name {
			ob.Status = "refuted"
			ob.Output = "solvers disagree: " + ob.Solver + " answered unsat, " + r.solver + " answered sat\n" + r.out
			ob.Model = r.out
			ob.Solver = r.solver
			return
		}
	}
}

func solveOne(ob *Obligation, dir string, quick, full time.Duration, twoUnsat bool) {
	if ob.Probe != "" {
		// consistency probes are a cheap guard: a probe that is not decided at once is not pursued
		quick, full = 3*time.Second, 3*time.Second
	}
	file := filepath.Join(dir, sanitize(ob.Name)+fmt.Sprintf("_%d.smt2", hashString(ob.Name)))
	os.WriteFile(file, []byte(ob.Script+"(get-model)\n"), 0o644)
	defer func() {
		if crossCheck {
			secondOpinion(ob, strings.TrimSuffix(file, ".smt2")+".second.smt2", quick)
		}
		if ob.Status == "discharged" && os.Getenv("GOVC_KEEP") == "" {
			os.Remove(file)
		}
	}()
	t0 := time.Now()
	finish := func(r solveResult) {
		ob.Solver = r.solver
		ob.Time = time.Since(t0).Seconds()
		ob.Output = r.out
		if len(ob.Output) > 6000 {
			ob.Output = ob.Output[:6000]
		}
		switch {
		case r.verdict == "unknown":
			ob.Status = "undecided"
		case r.verdict == ob.Expect:
			ob.Status = "discharged"
		default:
			ob.Status = "refuted"
			if r.verdict == "sat" {
				ob.Model = r.out
			}
		}
	}
	{
		qctx, qcancel := context.WithCancel(context.Background())
		quickSet := []solverSpec{solvers[0], solvers[1], solvers[3]}
		qch := make(chan solveResult, len(quickSet))
		q1 := quick
		if len(ob.Splits) >= 2 && ob.Expect == "unsat" && q1 > 2*time.Second {
			q1 = 2 * time.Second // a case split is available: fall back to it early
		}
		for _, s := range quickSet {
			s := s
			go func() { qch <- runSolver(qctx, s, file, q1) }()
		}
		for i := 0; i < len(quickSet); i++ {
			r := <-qch
			// "sat" from the e-matching-only configuration is not trusted (incomplete); only unsat counts
			if r.verdict == "unsat" || (r.verdict == "sat" && r.solver != solvers[1].name) {
				qcancel()
				finish(r)
				return
			}
		}
		qcancel()
	}
	if len(ob.Splits) >= 2 && ob.Expect == "unsat" {
		if r, ok := solveSplit(ob, file, quick); ok {
			finish(r)
			return
		}
	}
	ctx, cancel := context.WithCancel(context.Background())
	defer cancel()
	ch := make(chan solveResult, len(solvers))
	for _, s := range solvers {
		s := s
		go func() { ch <- runSolver(ctx, s, file, full) }()
	}
	var last solveResult
	for range solvers {
		r := <-ch
		if r.verdict == "unknown" || last.solver == "" {
			last = r
		}
		if r.verdict != "unknown" {
			finish(r)
			return
		}
	}
	last.verdict = "unknown"
	finish(last)
}

func solveAll(obs []*Obligation, dir string, quick, full time.Duration, workers int) {
	os.MkdirAll(dir, 0o755)
	var wg sync.WaitGroup
	ch := make(chan *Obligation)
	for i := 0; i < workers; i++ {
		wg.Add(1)
		go func() {
			defer wg.Done()
			for ob := range ch {
				solveOne(ob, dir, quick, full, false)
			}
		}()
	}
	for _, ob := range obs {
		ch <- ob
	}
	close(ch)
	wg.Wait()
}

// solveSplit decides an obligation by cases: one query per path merged at the last join before the
// obligation, plus one showing the cases are exhaustive. All unsat: discharged. A case that is sat
// is a counterexample of the whole obligation (it only adds a path condition).
func solveSplit(ob *Obligation, file string, timeout time.Duration) (solveResult, bool) {
	const tail = "(check-sat)\n"
	if !strings.HasSuffix(ob.Script, tail) {
		return solveResult{}, false
	}
	base := ob.Script[:len(ob.Script)-len(tail)]
	cases := append([]string{}, ob.Splits...)
	cases = append(cases, "(not (or "+strings.Join(ob.Splits, " ")+"))")
	type res struct {
		r solveResult
		i int
	}
	ch := make(chan res, len(cases))
	ctx, cancel := context.WithCancel(context.Background())
	defer cancel()
	quickSet := []solverSpec{solvers[0], solvers[1], solvers[3]}
	t0 := time.Now()
	for i, c := range cases {
		i, c := i, c
		go func() {
			f := fmt.Sprintf("%s.case%d.smt2", strings.TrimSuffix(file, ".smt2"), i)
			os.WriteFile(f, []byte(base+"(assert "+c+")\n"+tail+"(get-model)\n"), 0o644)
			defer os.Remove(f)
			cctx, ccancel := context.WithCancel(ctx)
			defer ccancel()
			rc := make(chan solveResult, len(quickSet))
			for _, s := range quickSet {
				s := s
				go func() { rc <- runSolver(cctx, s, f, timeout) }()
			}
			out := solveResult{verdict: "unknown"}
			for range quickSet {
				r := <-rc
				if r.verdict == "unsat" || (r.verdict == "sat" && r.solver != solvers[1].name) {
					out = r
					break
				}
			}
			ch <- res{out, i}
		}()
	}
	var secs float64
	var last solveResult
	for range cases {
		x := <-ch
		secs += x.r.secs
		switch x.r.verdict {
		case "sat":
			x.r.solver = fmt.Sprintf("%s (case %d of %d)", x.r.solver, x.i+1, len(cases))
			return x.r, true
		case "unknown":
			return solveResult{}, false
		}
		last = x.r
	}
	last.verdict = "unsat"
	last.solver = fmt.Sprintf("case split over %d paths (z3-new 5.1.0 / cvc5 1.0)", len(cases)-1)
	last.secs = time.Since(t0).Seconds()
	return last, true
}
