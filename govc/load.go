package main

import (
	"fmt"
	"go/types"
	"sort"
	"strings"

	"golang.org/x/tools/go/packages"
	"golang.org/x/tools/go/ssa"
	"golang.org/x/tools/go/ssa/ssautil"
)

func LoadEngine(repo string) (*Engine, error) {
	cfg := &packages.Config{Mode: packages.LoadAllSyntax, Dir: repo, BuildFlags: []string{"-tags=verif"},
		Env: append(osEnviron(), "GOFLAGS=-mod=mod", "GOPROXY=off", "GOSUMDB=off", "GOTOOLCHAIN=local")}
	pkgs, err := packages.Load(cfg, "./...")
	if err != nil {
		return nil, err
	}
	var errs []string
	packages.Visit(pkgs, nil, func(p *packages.Package) {
		if strings.HasPrefix(p.PkgPath, modPath) {
			for _, e := range p.Errors {
				errs = append(errs, e.Error())
			}
		}
	})
	if len(errs) > 0 {
		return nil, fmt.Errorf("package errors: %s", strings.Join(errs, "; "))
	}
	prog, spkgs := ssautil.AllPackages(pkgs, ssa.GlobalDebug|ssa.BareInits)
	prog.Build()
	e := &Engine{RepoDir: repo, W: newWorld(), Prog: prog, Funcs: map[string]*ssa.Function{}, InitOnlyGlobals: map[*ssa.Global]bool{}, GlobalInit: map[*ssa.Global]ssa.Value{}}
	e.loadBindings()
	if len(pkgs) > 0 {
		e.Fset = pkgs[0].Fset
	}
	for _, p := range spkgs {
		if p != nil && strings.HasPrefix(p.Pkg.Path(), modPath) {
			e.Pkgs = append(e.Pkgs, p)
		}
	}
	sort.Slice(e.Pkgs, func(i, j int) bool { return e.Pkgs[i].Pkg.Path() < e.Pkgs[j].Pkg.Path() })
	// all functions of the repo packages, including methods and closures
	for fn := range ssautil.AllFunctions(prog) {
		if e.isRepoFn(fn) {
			e.Funcs[e.fnName(fn)] = fn
		}
	}
	e.prescan()
	cs, err := LoadContracts(repo)
	if err != nil {
		return nil, err
	}
	if err := cs.ParseAll(); err != nil {
		return nil, err
	}
	e.CS = cs
	e.rebindMovedClosures()
	return e, nil
}

// prescan registers every dynamic type that flows into an interface in the repo packages (so the
// Iface datatype is closed before any function is translated) and classifies package-level
// variables: init-only ones are constants for every other function.
func (e *Engine) prescan() {
	written := map[*ssa.Global]bool{}
	var names []string
	for n := range e.Funcs {
		names = append(names, n)
	}
	sort.Strings(names)
	// the five storable value types first (stable constructor names)
	for _, t := range []types.Type{tInt64, tFloat64, tString, tBytes} {
		e.W.IfaceCon(t)
	}
	for _, n := range names {
		fn := e.Funcs[n]
		isInit := isInitFn(fn)
		for _, b := range fn.Blocks {
			for _, ins := range b.Instrs {
				switch t := ins.(type) {
				case *ssa.MakeInterface:
					e.registerDyn(t.X.Type())
				case *ssa.TypeAssert:
					if _, isIface := t.AssertedType.Underlying().(*types.Interface); !isIface {
						e.registerDyn(t.AssertedType)
					}
				case *ssa.Store:
					if g := rootGlobal(t.Addr); g != nil {
						if isInit && fn.Parent() == nil {
							if ga, ok := t.Addr.(*ssa.Global); ok {
								e.GlobalInit[ga] = t.Val
							}
						} else {
							written[g] = true
						}
					}
				case *ssa.MapUpdate:
					if g := rootGlobalVal(t.Map); g != nil && !isInit {
						written[g] = true
					}
				}
			}
		}
	}
	for _, p := range e.Pkgs {
		var ms []string
		for n := range p.Members {
			ms = append(ms, n)
		}
		sort.Strings(ms)
		for _, n := range ms {
			if t, ok := p.Members[n].(*ssa.Type); ok {
				if _, isStruct := t.Type().Underlying().(*types.Struct); isStruct {
					func() {
						defer func() { recover() }()
						e.W.SortOf(t.Type())
					}()
				}
			}
		}
	}
	for _, p := range e.Pkgs {
		for _, m := range p.Members {
			if g, ok := m.(*ssa.Global); ok {
				if !written[g] {
					e.InitOnlyGlobals[g] = true
				}
			}
		}
	}
}

func (e *Engine) registerDyn(t types.Type) {
	defer func() { recover() }()
	if _, isIface := t.Underlying().(*types.Interface); isIface {
		return
	}
	e.W.IfaceCon(t)
}

func rootGlobal(addr ssa.Value) *ssa.Global {
	switch t := addr.(type) {
	case *ssa.Global:
		return t
	case *ssa.FieldAddr:
		return rootGlobal(t.X)
	case *ssa.IndexAddr:
		return rootGlobal(t.X)
	}
	return nil
}

// rootGlobalVal: value loaded from a global (e.g. a package-level map).
func rootGlobalVal(v ssa.Value) *ssa.Global {
	if u, ok := v.(*ssa.UnOp); ok {
		return rootGlobal(u.X)
	}
	return nil
}
