#!/bin/sh
# Must-fail corpus: every seeded change (a realistic property-breaking edit that compiles and passes the
# pinned suite, each confirmed with a demonstration) is applied to a scratch worktree outside /repo and
# /verif and the check of its property must report a violation there. Usage: selftest.sh [ID-mK ...]
cd /verif || exit 2
sh /verif/setup.sh || exit 2
export GOFLAGS=-mod=mod GOPROXY=off GOSUMDB=off GOTOOLCHAIN=local
list="$@"; [ -z "$list" ] && list=$(ls seeded)
fail=0
for s in $list; do
  prop=$(python3 -c "import json;print(json.load(open('/verif/seeded/$s/meta.json'))['property'])")
  if ! python3 -c "import json,sys;sys.exit(0 if any(c['property_id']=='$prop' for c in json.load(open('/verif/MANIFEST.json'))['checks']) else 1)"; then echo "$s ($prop): property not claimed"; continue; fi
  wt=/tmp/selftest-$s; out=/tmp/selftest-out-$s
  rm -rf $wt $out; git -C /repo worktree prune
  git -C /repo worktree add -q --detach $wt HEAD || { echo "$s: cannot create worktree"; fail=1; continue; }
  if ! git -C $wt apply /verif/seeded/$s/patch.diff 2>/dev/null; then echo "$s ($prop): patch does not apply"; fail=1; git -C /repo worktree remove --force $wt; continue; fi
  props="$prop $(python3 -c "import json;print(' '.join(json.load(open('/verif/seeded/$s/meta.json')).get('also_caught_by',[])))")"
  caught=""
  for p in $props; do
    GOVC_FULL=40s bin/govc check -repo $wt -prop $p -out $out > $out.log 2>&1 && rc=0 || rc=$?
    if [ $rc -eq 1 ] && grep -q "^VIOLATION property=$p" $out.log; then caught="$caught $p:$(grep -c '^VIOLATION' $out.log)"; fi
  done
  if [ -n "$caught" ]; then echo "$s ($prop): CAUGHT by$caught  e.g. $(grep -h '^VIOLATION' $out.log | head -1 | sed 's/.*obligation=//')"; else echo "$s ($prop): MISSED"; fail=1; fi
  git -C /repo worktree remove --force $wt; rm -rf $out $out.log
done
exit $fail
