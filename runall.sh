#!/bin/sh
# runs the quick (or $1) check of every claimed property; prints one line per property
tier=${1:-quick}
cd /verif
for p in $(python3 -c "import json;print(' '.join(c['property_id'] for c in json.load(open('/verif/MANIFEST.json'))['checks']))"); do
  sh /verif/check.sh $p $tier > /tmp/runall_$p.log 2>&1; rc=$?
  echo "$p rc=$rc $(grep -h '^property' /tmp/runall_$p.log | tail -1) $(grep -c '^VIOLATION' /tmp/runall_$p.log) violations"
  grep -h '^VIOLATION\|^KNOWN' /tmp/runall_$p.log | head -5
done
