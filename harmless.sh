#!/bin/sh
# False-alarm corpus: behaviour-preserving edits (under /verif/harmless/<name>/patch.diff) applied to a
# scratch worktree; every check must still pass there. Usage: harmless.sh [name ...]
cd /verif || exit 2
sh /verif/setup.sh || exit 2
export GOFLAGS=-mod=mod GOPROXY=off GOSUMDB=off GOTOOLCHAIN=local
list="$@"; [ -z "$list" ] && list=$(ls harmless 2>/dev/null)
props=$(python3 -c "import json;print(' '.join(c['property_id'] for c in json.load(open('/verif/MANIFEST.json'))['checks']))")
fail=0
for h in $list; do
  wt=/tmp/harmless-$h; out=/tmp/harmless-out-$h
  rm -rf $wt $out; git -C /repo worktree prune
  git -C /repo worktree add -q --detach $wt HEAD || { echo "$h: cannot create worktree"; fail=1; continue; }
  if ! git -C $wt apply /verif/harmless/$h/patch.diff 2>/dev/null; then echo "$h: patch does not apply"; fail=1; git -C /repo worktree remove --force $wt; continue; fi
  alarms=""
  for p in $props; do
    [ "$p" = C05 ] && continue   # C05 re-runs every function of the other checks
    bin/govc check -repo $wt -prop $p -out $out > $out.$p.log 2>&1 || true
    n=$(grep -c '^VIOLATION' $out.$p.log)
    [ "$n" -gt 0 ] && alarms="$alarms $p:$n($(grep -h '^VIOLATION' $out.$p.log | head -1 | sed 's/.*obligation=//' | cut -c1-80))"
  done
  if [ -z "$alarms" ]; then echo "$h: quiet"; else echo "$h: FALSE ALARM$alarms"; fail=1; fi
  git -C /repo worktree remove --force $wt; rm -rf $out $out.*.log
done
exit $fail
